package main

// Regenerated tie for the hand-written AST walkers (DESIGN §4 C04 "walk_complete", §10.1 item 2).
//
// pyscn's internal AST is `parser.Node`; the children of a node hang in a dozen differently named fields (Children, Body, Orelse,
// Handlers, Finalbody, Targets, Args, Keywords, Decorator, Bases, Test, Iter, Left, Right and — inside an interface{} — Value).  Every
// analysis walks that tree with its own recursive function, and "walker X does not descend into field Y" is a recurring defect.
// This generator computes, from the Go source of the working tree,
//
//   childFields  every field of parser.Node that can hold child nodes (type *Node / []*Node, `Parent` excluded, plus every field of
//                interface type that the builder assigns a *Node to),
//   assigned     the child fields that internal/parser/ast_builder.go ever populates (x.F = …, x.F[i] = …, &Node{F: …}, or through a
//                Node method such as AddChild / AddToBody),
//   walkers      for each walker of the table below: the set of child fields OF THE CURRENT NODE whose contents reach a recursive call
//                (ranged over, indexed, type-asserted, appended to a slice that is ranged over, passed to the walker itself, to a
//                function that is mutually recursive with it, or to another recursive walker; helper calls on the current node — also
//                into internal/parser, e.g. Node.GetChildren — are followed through their own summaries),
//   guarded      the visits that happen only under a condition that is not a nil / ok / len check (text of the condition).
//
// The tables go to PV.Generated.Walkers; PV.Properties.WalkersExpected holds the reviewed values and the reviewed list of fields each
// walker does NOT follow, PV.Properties.C04x proves Generated = Expected (so a walker that loses or gains a field breaks a proof
// obligation) and that every assigned field is followed or listed.
//
// A helper that receives the CURRENT node contributes its own visits only when they re-enter the recursion (helper ranges over a field and
// calls back), or when the caller does not recurse itself (a wrapper such as Node.Find → n.Walk); an independent traversal started on the
// current node (extractFragmentsRecursive → NewCodeFragment → calculateASTSize) is a different walk and is not credited to the caller.
//
// The analysis is syntactic + go/types and flow-insensitive.  What it does not see: a child skipped by `continue` outside a loop body's
// top level, fields reached through reflection.  It over-approximates "followed" only through deeper accesses (`kw.Children[0]` for
// kw ∈ node.Keywords counts as following Keywords).

import (
	"fmt"
	"go/ast"
	"go/token"
	"go/types"
	"os"
	"path/filepath"
	"sort"
	"strings"
)

type walkerSpec struct {
	Dir  string // package directory relative to the repository root
	File string // base name of the file that must hold the function (part of the key, so a moved walker is noticed)
	Func string // "Recv.Name" or "Name"
}

// the table of pinned walkers; a function that is missing is an EXTRACT-ERROR (broken tie), never a silent omission
var walkerTable = []walkerSpec{
	{"internal/analyzer", "lcom.go", "LCOMAnalyzer.walkNode"},
	{"internal/analyzer", "cbo.go", "CBOAnalyzer.walkNode"},
	{"internal/analyzer", "clone_detector.go", "calculateASTSize"},
	{"internal/analyzer", "clone_detector.go", "CloneDetector.extractFragmentsRecursive"},
	{"internal/analyzer", "clone_detector.go", "CloneDetector.extractFragmentsRecursiveWithSource"},
	{"internal/analyzer", "apted_tree.go", "TreeConverter.ConvertAST"},
	{"internal/analyzer", "module_analyzer.go", "ModuleAnalyzer.walkNode"},
	{"internal/analyzer", "module_analyzer.go", "ModuleAnalyzer.containsTypeChecking"},
	{"internal/analyzer", "nesting_depth.go", "traverseForNesting"},
	{"internal/analyzer", "reexport_resolver.go", "ReExportResolver.walkNode"},
	{"internal/parser", "ast.go", "Node.GetChildren"},
	{"internal/parser", "ast.go", "Node.Walk"},
	{"internal/parser", "visitor.go", "Node.Accept"},
}

const (
	walkerParserDir  = "internal/parser"
	walkerBuilderSrc = "ast_builder.go"
	selfMark         = "\x00self"
	walkerMaxDepth   = 4
)

type wfunc struct {
	pkg *Pkg
	fd  *ast.FuncDecl
}

type wsum struct {
	visited   map[string]bool            // fields of the current node whose contents reach a recursive call
	returned  map[string]bool            // fields of the current node whose contents flow into a Node-typed result
	guards    map[string]map[string]bool // field → set of guard texts ("" = some visit is unconditional)
	outer     map[string]map[string]bool // the visits (with guards) that hand a child to a function that was on the analysis stack: mutual recursion
	recursive bool
}

type walkAn struct {
	l     *Loader
	index map[types.Object]*wfunc
	memo  map[types.Object]*wsum
	busy  map[types.Object]bool
	hits  int // how often an analysis ran into a function that is on the analysis stack (such summaries depend on the stack: not memoised)
	child map[string]bool
	node  *types.Named
}

func isNodeNamed(t types.Type) bool {
	n, ok := t.(*types.Named)
	if !ok || n.Obj() == nil || n.Obj().Pkg() == nil {
		return false
	}
	return n.Obj().Name() == "Node" && strings.HasSuffix(n.Obj().Pkg().Path(), "/"+walkerParserDir)
}

// nodeTyped: Node, *Node, []*Node, []Node, *[]*Node
func nodeTyped(t types.Type) bool {
	for i := 0; i < 3 && t != nil; i++ {
		if isNodeNamed(t) {
			return true
		}
		switch x := t.(type) {
		case *types.Pointer:
			t = x.Elem()
		case *types.Slice:
			t = x.Elem()
		case *types.Array:
			t = x.Elem()
		default:
			return false
		}
	}
	return t != nil && isNodeNamed(t)
}

func (w *walkAn) typeOf(p *Pkg, e ast.Expr) types.Type {
	if tv, ok := p.Info.Types[e]; ok {
		return tv.Type
	}
	if id, ok := e.(*ast.Ident); ok {
		if o := p.Info.Uses[id]; o != nil {
			return o.Type()
		}
		if o := p.Info.Defs[id]; o != nil {
			return o.Type()
		}
	}
	return nil
}

// fieldOfNode: e is `x.F` with x Node-typed and F a child field → (x, F)
func (w *walkAn) fieldOfNode(p *Pkg, e ast.Expr) (ast.Expr, string, bool) {
	sel, ok := e.(*ast.SelectorExpr)
	if !ok {
		return nil, "", false
	}
	if !w.child[sel.Sel.Name] {
		return nil, "", false
	}
	s := p.Info.Selections[sel]
	if s == nil || s.Kind() != types.FieldVal {
		return nil, "", false
	}
	if !nodeTyped(w.typeOf(p, sel.X)) {
		return nil, "", false
	}
	return sel.X, sel.Sel.Name, true
}

func recvName(fd *ast.FuncDecl) string {
	if fd.Recv == nil || len(fd.Recv.List) != 1 {
		return ""
	}
	t := fd.Recv.List[0].Type
	if s, ok := t.(*ast.StarExpr); ok {
		t = s.X
	}
	if id, ok := t.(*ast.Ident); ok {
		return id.Name
	}
	return ""
}

func union(dst map[string]bool, src map[string]bool) bool {
	ch := false
	for k := range src {
		if !dst[k] {
			dst[k] = true
			ch = true
		}
	}
	return ch
}

// callee resolves the function called by c: (object, receiver expression or nil, isLocalFuncVar)
func (w *walkAn) callee(p *Pkg, c *ast.CallExpr) (types.Object, ast.Expr, bool) {
	switch f := c.Fun.(type) {
	case *ast.Ident:
		o := p.Info.Uses[f]
		if fn, ok := o.(*types.Func); ok {
			return fn, nil, false
		}
		if v, ok := o.(*types.Var); ok {
			if _, isSig := v.Type().Underlying().(*types.Signature); isSig && !v.IsField() && v.Parent() != nil && v.Parent() != v.Pkg().Scope() {
				return v, nil, true
			}
		}
	case *ast.SelectorExpr:
		if s := p.Info.Selections[f]; s != nil {
			if fn, ok := s.Obj().(*types.Func); ok {
				return fn, f.X, false
			}
			return nil, nil, false
		}
		if fn, ok := p.Info.Uses[f.Sel].(*types.Func); ok { // pkg.Func
			return fn, nil, false
		}
	}
	return nil, nil, false
}

func benignCond(e ast.Expr) bool {
	switch x := e.(type) {
	case *ast.ParenExpr:
		return benignCond(x.X)
	case *ast.Ident:
		return x.Name == "ok"
	case *ast.BinaryExpr:
		switch x.Op {
		case token.LAND, token.LOR:
			return benignCond(x.X) && benignCond(x.Y)
		case token.NEQ, token.EQL:
			if id, ok := x.Y.(*ast.Ident); ok && id.Name == "nil" {
				return true
			}
			if id, ok := x.X.(*ast.Ident); ok && id.Name == "nil" {
				return true
			}
		}
		isLen := func(e ast.Expr) bool {
			c, ok := e.(*ast.CallExpr)
			if !ok {
				return false
			}
			id, ok := c.Fun.(*ast.Ident)
			return ok && id.Name == "len"
		}
		_, litY := x.Y.(*ast.BasicLit)
		_, litX := x.X.(*ast.BasicLit)
		if (isLen(x.X) && litY) || (isLen(x.Y) && litX) {
			return true
		}
	}
	return false
}

func endsInJump(b *ast.BlockStmt) bool {
	if b == nil || len(b.List) == 0 {
		return false
	}
	switch s := b.List[len(b.List)-1].(type) {
	case *ast.BranchStmt:
		return s.Tok == token.CONTINUE || s.Tok == token.BREAK
	case *ast.ReturnStmt:
		return true
	}
	return false
}

// guardsOf: the non-benign conditions on the path from the function body to the last element of stack
func (w *walkAn) guardsOf(stack []ast.Node) []string {
	var gs []string
	contains := func(outer ast.Node, inner ast.Node) bool {
		return outer != nil && inner != nil && outer.Pos() <= inner.Pos() && inner.End() <= outer.End()
	}
	for i := 0; i+1 < len(stack); i++ {
		next := stack[i+1]
		switch x := stack[i].(type) {
		case *ast.IfStmt:
			switch {
			case contains(x.Body, next):
				if !benignCond(x.Cond) {
					gs = append(gs, nodeText(w.l.Fset, x.Cond))
				}
			case x.Else != nil && contains(x.Else, next):
				gs = append(gs, "else of ("+nodeText(w.l.Fset, x.Cond)+")")
			}
		case *ast.CaseClause:
			tag := ""
			if i > 0 {
				if _, ok := stack[i-1].(*ast.BlockStmt); ok && i > 1 {
					switch sw := stack[i-2].(type) {
					case *ast.SwitchStmt:
						if sw.Tag != nil {
							tag = nodeText(w.l.Fset, sw.Tag) + " "
						}
					case *ast.TypeSwitchStmt:
						tag = "type "
					}
				}
			}
			if x.List == nil {
				gs = append(gs, "switch "+tag+"default")
			} else {
				var cs []string
				for _, e := range x.List {
					cs = append(cs, nodeText(w.l.Fset, e))
				}
				gs = append(gs, "switch "+tag+"case "+strings.Join(cs, ", "))
			}
		case *ast.BlockStmt:
			// inside a loop body: a preceding `if cond { continue | break | return }` skips the rest for some children
			if i == 0 {
				break
			}
			switch stack[i-1].(type) {
			case *ast.RangeStmt, *ast.ForStmt:
			default:
				continue
			}
			for _, s := range x.List {
				if contains(s, next) {
					break
				}
				if ifs, ok := s.(*ast.IfStmt); ok && ifs.Else == nil && endsInJump(ifs.Body) && !benignCond(ifs.Cond) {
					gs = append(gs, "unless ("+nodeText(w.l.Fset, ifs.Cond)+")")
				}
			}
		}
	}
	return gs
}

func (w *walkAn) analyze(obj types.Object, depth int) *wsum {
	if s, ok := w.memo[obj]; ok {
		return s
	}
	if w.busy[obj] {
		w.hits++
		return nil
	}
	hits0 := w.hits
	empty := &wsum{visited: map[string]bool{}, returned: map[string]bool{}, guards: map[string]map[string]bool{}, outer: map[string]map[string]bool{}}
	wf := w.index[obj]
	if wf == nil || wf.fd.Body == nil || depth > walkerMaxDepth {
		return empty
	}
	w.busy[obj] = true
	defer delete(w.busy, obj)
	p := wf.pkg
	sum := &wsum{visited: map[string]bool{}, returned: map[string]bool{}, guards: map[string]map[string]bool{}, outer: map[string]map[string]bool{}}
	O := map[types.Object]map[string]bool{}
	get := func(o types.Object) map[string]bool {
		if O[o] == nil {
			O[o] = map[string]bool{}
		}
		return O[o]
	}
	markParams := func(fl *ast.FieldList) {
		if fl == nil {
			return
		}
		for _, f := range fl.List {
			for _, nm := range f.Names {
				if o := p.Info.Defs[nm]; o != nil && nodeTyped(o.Type()) {
					get(o)[selfMark] = true
				}
			}
		}
	}
	markParams(wf.fd.Recv)
	markParams(wf.fd.Type.Params)
	ast.Inspect(wf.fd.Body, func(n ast.Node) bool {
		if fl, ok := n.(*ast.FuncLit); ok {
			markParams(fl.Type.Params)
		}
		return true
	})

	var orig func(e ast.Expr) map[string]bool
	orig = func(e ast.Expr) map[string]bool {
		out := map[string]bool{}
		switch x := e.(type) {
		case nil:
		case *ast.Ident:
			if o := p.Info.Uses[x]; o != nil {
				union(out, O[o])
			} else if o := p.Info.Defs[x]; o != nil {
				union(out, O[o])
			}
		case *ast.SelectorExpr:
			if base, f, ok := w.fieldOfNode(p, x); ok {
				for k := range orig(base) {
					if k == selfMark {
						out[f] = true
					} else {
						out[k] = true // a field of a child: still hangs under the child's field
					}
				}
			}
		case *ast.TypeAssertExpr:
			union(out, orig(x.X))
		case *ast.IndexExpr:
			union(out, orig(x.X))
		case *ast.SliceExpr:
			union(out, orig(x.X))
		case *ast.StarExpr:
			union(out, orig(x.X))
		case *ast.ParenExpr:
			union(out, orig(x.X))
		case *ast.UnaryExpr:
			if x.Op == token.AND {
				union(out, orig(x.X))
			}
		case *ast.CompositeLit:
			for _, el := range x.Elts {
				if kv, ok := el.(*ast.KeyValueExpr); ok {
					el = kv.Value
				}
				if nodeTyped(w.typeOf(p, el)) {
					union(out, orig(el))
				}
			}
		case *ast.CallExpr:
			if id, ok := x.Fun.(*ast.Ident); ok && id.Name == "append" && p.Info.Uses[id] == types.Universe.Lookup("append") {
				for _, a := range x.Args {
					union(out, orig(a))
				}
				return out
			}
			if !nodeTyped(w.typeOf(p, x)) {
				return out
			}
			co, recv, local := w.callee(p, x)
			if co == nil || local {
				return out
			}
			cs := w.analyze(co, depth+1)
			args := append([]ast.Expr{}, x.Args...)
			if recv != nil {
				args = append(args, recv)
			}
			for _, a := range args {
				if !nodeTyped(w.typeOf(p, a)) {
					continue
				}
				for k := range orig(a) {
					if k == selfMark {
						if cs != nil {
							union(out, cs.returned)
						}
					} else if cs == nil || len(cs.returned) > 0 {
						out[k] = true
					}
				}
			}
		}
		return out
	}

	// variable origins, to a fixpoint (flow-insensitive)
	for iter := 0; iter < 12; iter++ {
		changed := false
		ast.Inspect(wf.fd.Body, func(n ast.Node) bool {
			switch x := n.(type) {
			case *ast.AssignStmt:
				for i, lh := range x.Lhs {
					id, ok := lh.(*ast.Ident)
					if !ok || id.Name == "_" {
						continue
					}
					var rhs ast.Expr
					if len(x.Rhs) == len(x.Lhs) {
						rhs = x.Rhs[i]
					} else if len(x.Rhs) == 1 && i == 0 {
						rhs = x.Rhs[0] // v, ok := e.(T) / v, ok := m[k]
					}
					if rhs == nil {
						continue
					}
					o := p.Info.Defs[id]
					if o == nil {
						o = p.Info.Uses[id]
					}
					if o == nil || !nodeTyped(o.Type()) {
						continue
					}
					if union(get(o), orig(rhs)) {
						changed = true
					}
				}
			case *ast.RangeStmt:
				if id, ok := x.Value.(*ast.Ident); ok && id.Name != "_" {
					o := p.Info.Defs[id]
					if o == nil {
						o = p.Info.Uses[id]
					}
					if o != nil && nodeTyped(o.Type()) {
						if union(get(o), orig(x.X)) {
							changed = true
						}
					}
				}
			case *ast.ValueSpec:
				for i, id := range x.Names {
					if i < len(x.Values) {
						if o := p.Info.Defs[id]; o != nil && nodeTyped(o.Type()) {
							if union(get(o), orig(x.Values[i])) {
								changed = true
							}
						}
					}
				}
			}
			return true
		})
		if !changed {
			break
		}
	}

	visit := func(f string, gs []string) {
		sum.visited[f] = true
		if sum.guards[f] == nil {
			sum.guards[f] = map[string]bool{}
		}
		sum.guards[f][strings.Join(gs, " && ")] = true
	}
	outerVisit := func(f string, gs []string) {
		if sum.outer[f] == nil {
			sum.outer[f] = map[string]bool{}
		}
		sum.outer[f][strings.Join(gs, " && ")] = true
	}
	// a call that hands the CURRENT node to a helper: which of the helper's visits count is decided after the scan
	type deleg struct {
		cs *wsum
		gs []string
	}
	var delegs []deleg
	var stack []ast.Node
	ast.Inspect(wf.fd.Body, func(n ast.Node) bool {
		if n == nil {
			stack = stack[:len(stack)-1]
			return true
		}
		stack = append(stack, n)
		switch x := n.(type) {
		case *ast.ReturnStmt:
			for _, r := range x.Results {
				if nodeTyped(w.typeOf(p, r)) {
					for k := range orig(r) {
						if k != selfMark {
							sum.returned[k] = true
						}
					}
				}
			}
		case *ast.CallExpr:
			co, recv, local := w.callee(p, x)
			if co == nil {
				break
			}
			var cs *wsum
			selfCall := local || co == obj
			cyc := selfCall
			if !selfCall {
				if cs = w.analyze(co, depth+1); cs == nil {
					cyc = true // the callee is on the analysis stack: mutual recursion
				}
			}
			if cyc {
				sum.recursive = true
			}
			target := cyc || (cs != nil && (cs.recursive || len(cs.visited) > 0))
			if !target {
				break
			}
			args := append([]ast.Expr{}, x.Args...)
			if recv != nil {
				args = append(args, recv)
			}
			var gs []string
			gsDone := false
			for _, a := range args {
				if !nodeTyped(w.typeOf(p, a)) {
					continue
				}
				for k := range orig(a) {
					if !gsDone {
						gs = w.guardsOf(stack)
						gsDone = true
					}
					if k != selfMark {
						visit(k, gs)
						if cyc && !selfCall {
							outerVisit(k, gs)
						}
					} else if !cyc && cs != nil {
						delegs = append(delegs, deleg{cs, gs})
					}
				}
			}
		}
		return true
	})
	// Delegation on the same node.  A function that does not recurse itself (Node.Find → n.Walk, NewCodeFragment → calculateASTSize) is a
	// wrapper: the helper's visits are its visits.  A function that DOES recurse adopts only the helper's visits that re-enter the recursion
	// (helper ranges over a field and calls back); an independent traversal started on the current node (extractFragmentsRecursive →
	// NewCodeFragment → calculateASTSize) is a different walk and must not mask a field this walker does not follow.
	for _, d := range delegs {
		adopt := func(src map[string]map[string]bool, f func(string, []string)) {
			for fld, gset := range src {
				for g := range gset {
					all := append([]string{}, d.gs...)
					if g != "" {
						all = append(all, g)
					}
					f(fld, all)
				}
			}
		}
		if sum.recursive {
			adopt(d.cs.outer, visit)
		} else {
			vis := map[string]map[string]bool{}
			for fld := range d.cs.visited {
				vis[fld] = d.cs.guards[fld]
			}
			adopt(vis, visit)
		}
		adopt(d.cs.outer, outerVisit)
	}
	if w.hits > hits0 {
		return sum // computed relative to the functions on the analysis stack: do not memoise
	}
	w.memo[obj] = sum
	return sum
}

func sortedKeys(m map[string]bool) []string {
	out := make([]string, 0, len(m))
	for k := range m {
		if k != selfMark {
			out = append(out, k)
		}
	}
	sort.Strings(out)
	return out
}

func leanStrList(xs []string) string {
	q := make([]string, len(xs))
	for i, x := range xs {
		q[i] = fmt.Sprintf("%q", x)
	}
	return "[" + strings.Join(q, ", ") + "]"
}

func genWalkers(l *Loader, outdir string) (err error) {
	outFile := filepath.Join(outdir, "Walkers.lean")
	defer func() {
		if err != nil {
			_ = os.Remove(outFile) // never leave a stale table behind: the Lean build must fail too
		}
	}()
	pp, err := l.Load(walkerParserDir)
	if err != nil {
		return fmt.Errorf("walkers: %v", err)
	}
	if pp.Types == nil {
		return fmt.Errorf("walkers: package %s did not type-check", walkerParserDir)
	}
	nobj, _ := pp.Types.Scope().Lookup("Node").(*types.TypeName)
	if nobj == nil {
		return fmt.Errorf("walkers: type Node not found in %s", walkerParserDir)
	}
	st, ok := nobj.Type().Underlying().(*types.Struct)
	if !ok {
		return fmt.Errorf("walkers: parser.Node is not a struct")
	}
	w := &walkAn{l: l, index: map[types.Object]*wfunc{}, memo: map[types.Object]*wsum{}, busy: map[types.Object]bool{}, child: map[string]bool{}}
	ifaceFields := map[string]bool{}
	for i := 0; i < st.NumFields(); i++ {
		f := st.Field(i)
		if f.Name() == "Parent" {
			continue // back pointer, not a child
		}
		if nodeTyped(f.Type()) {
			w.child[f.Name()] = true
		} else if it, ok := f.Type().Underlying().(*types.Interface); ok && it.Empty() {
			ifaceFields[f.Name()] = true
		}
	}
	if len(w.child) == 0 {
		return fmt.Errorf("walkers: parser.Node has no *Node / []*Node field")
	}

	// ---- assigned: what ast_builder.go populates ------------------------------------------------
	var builder *ast.File
	for i, n := range pp.Names {
		if n == walkerBuilderSrc {
			builder = pp.Files[i]
		}
	}
	if builder == nil {
		return fmt.Errorf("walkers: %s/%s not found", walkerParserDir, walkerBuilderSrc)
	}
	// fields written by the methods of Node (AddChild → Children, AddToBody → Body); Copy is not a builder
	methodWrites := map[types.Object]map[string]bool{}
	for _, f := range pp.Files {
		for _, d := range f.Decls {
			fd, ok := d.(*ast.FuncDecl)
			if !ok || fd.Body == nil || recvName(fd) != "Node" {
				continue
			}
			ws := map[string]bool{}
			recvObj := types.Object(nil)
			if len(fd.Recv.List[0].Names) == 1 {
				recvObj = pp.Info.Defs[fd.Recv.List[0].Names[0]]
			}
			ast.Inspect(fd.Body, func(n ast.Node) bool {
				as, ok := n.(*ast.AssignStmt)
				if !ok {
					return true
				}
				for _, lh := range as.Lhs {
					if sel, ok := lh.(*ast.SelectorExpr); ok {
						if id, ok := sel.X.(*ast.Ident); ok && recvObj != nil && pp.Info.Uses[id] == recvObj {
							ws[sel.Sel.Name] = true
						}
					}
				}
				return true
			})
			if o := pp.Info.Defs[fd.Name]; o != nil {
				methodWrites[o] = ws
			}
		}
	}
	assigned := map[string]bool{}
	isNil := func(e ast.Expr) bool {
		id, ok := e.(*ast.Ident)
		return ok && id.Name == "nil"
	}
	noteAssign := func(field string, rhsType types.Type, rhs ast.Expr) {
		if rhs != nil && isNil(rhs) {
			return
		}
		if ifaceFields[field] {
			if rhsType != nil && nodeTyped(rhsType) {
				assigned[field] = true
				w.child[field] = true
			}
			return
		}
		if w.child[field] {
			assigned[field] = true
		}
	}
	ast.Inspect(builder, func(n ast.Node) bool {
		switch x := n.(type) {
		case *ast.AssignStmt:
			for i, lh := range x.Lhs {
				if ix, ok := lh.(*ast.IndexExpr); ok {
					lh = ix.X
				}
				sel, ok := lh.(*ast.SelectorExpr)
				if !ok {
					continue
				}
				s := pp.Info.Selections[sel]
				if s == nil || s.Kind() != types.FieldVal || !nodeTyped(w.typeOf(pp, sel.X)) {
					continue
				}
				var rhs ast.Expr
				var rt types.Type
				if len(x.Rhs) == len(x.Lhs) {
					rhs = x.Rhs[i]
					rt = w.typeOf(pp, rhs)
				} else if len(x.Rhs) == 1 {
					if tup, ok := w.typeOf(pp, x.Rhs[0]).(*types.Tuple); ok && i < tup.Len() {
						rt = tup.At(i).Type()
					}
				}
				noteAssign(sel.Sel.Name, rt, rhs)
			}
		case *ast.CompositeLit:
			if t := w.typeOf(pp, x); t != nil && isNodeNamed(t) {
				for _, el := range x.Elts {
					if kv, ok := el.(*ast.KeyValueExpr); ok {
						if id, ok := kv.Key.(*ast.Ident); ok {
							noteAssign(id.Name, w.typeOf(pp, kv.Value), kv.Value)
						}
					}
				}
			}
		case *ast.CallExpr:
			if sel, ok := x.Fun.(*ast.SelectorExpr); ok {
				if s := pp.Info.Selections[sel]; s != nil {
					for f := range methodWrites[s.Obj()] {
						if w.child[f] {
							assigned[f] = true
						}
					}
				}
			}
		}
		return true
	})
	if len(assigned) == 0 {
		return fmt.Errorf("walkers: no child field assignment recognised in %s/%s", walkerParserDir, walkerBuilderSrc)
	}

	// ---- walker summaries -----------------------------------------------------------------------
	dirs := map[string]bool{walkerParserDir: true}
	for _, ws := range walkerTable {
		dirs[ws.Dir] = true
	}
	pkgs := map[string]*Pkg{}
	for d := range dirs {
		pkg, err := l.Load(d)
		if err != nil {
			return fmt.Errorf("walkers: %v", err)
		}
		pkgs[d] = pkg
		for i, f := range pkg.Files {
			if strings.HasSuffix(pkg.Names[i], "_test.go") {
				continue
			}
			for _, dcl := range f.Decls {
				if fd, ok := dcl.(*ast.FuncDecl); ok {
					if o := pkg.Info.Defs[fd.Name]; o != nil {
						w.index[o] = &wfunc{pkg: pkg, fd: fd}
					}
				}
			}
		}
	}
	type row struct {
		key     string
		fields  []string
		guarded []string
	}
	var rows []row
	var missing []string
	for _, ws := range walkerTable {
		pkg := pkgs[ws.Dir]
		fd := pkg.FindFunc(ws.Func)
		key := ws.Dir + "/" + ws.File + ":" + ws.Func
		if fd == nil || pkg.FileOf(fd) != ws.File {
			missing = append(missing, key)
			continue
		}
		obj := pkg.Info.Defs[fd.Name]
		if obj == nil {
			missing = append(missing, key+" (not type-checked)")
			continue
		}
		s := w.analyze(obj, 0)
		all := map[string]bool{}
		union(all, s.visited)
		union(all, s.returned)
		r := row{key: key, fields: sortedKeys(all)}
		for _, f := range sortedKeys(s.visited) {
			if s.guards[f][""] || s.returned[f] {
				continue
			}
			for _, g := range sortedKeys(s.guards[f]) {
				r.guarded = append(r.guarded, f+": "+g)
			}
		}
		if len(r.fields) == 0 {
			return fmt.Errorf("walkers: %s follows no child field of parser.Node (not a walker any more?)", key)
		}
		rows = append(rows, r)
	}
	if len(missing) > 0 {
		return fmt.Errorf("walkers: pinned walker(s) not found: %s", strings.Join(missing, "; "))
	}
	sort.Slice(rows, func(i, j int) bool { return rows[i].key < rows[j].key })

	var b strings.Builder
	b.WriteString("-- GENERATED by /verif/extract (walkers.go) from /repo — do not edit; regenerated on every run.\nnamespace PV.Generated.Walkers\n\n")
	b.WriteString("/-- fields of parser.Node that can hold child nodes -/\ndef childFields : List String := " + leanStrList(sortedKeys(w.child)) + "\n\n")
	b.WriteString("/-- child fields that internal/parser/ast_builder.go populates -/\ndef assigned : List String := " + leanStrList(sortedKeys(assigned)) + "\n\n")
	b.WriteString("/-- walker ↦ child fields of the current node whose contents reach a recursive call -/\ndef walkers : List (String × List String) := [\n")
	for i, r := range rows {
		sep := ","
		if i == len(rows)-1 {
			sep = ""
		}
		fmt.Fprintf(&b, "  (%q, %s)%s\n", r.key, leanStrList(r.fields), sep)
	}
	b.WriteString("]\n\n/-- visits that happen only under a condition other than a nil / ok / len check -/\ndef guarded : List (String × List String) := [\n")
	first := true
	for _, r := range rows {
		if len(r.guarded) == 0 {
			continue
		}
		if !first {
			b.WriteString(",\n")
		}
		first = false
		fmt.Fprintf(&b, "  (%q, %s)", r.key, leanStrList(r.guarded))
	}
	b.WriteString("\n]\n\nend PV.Generated.Walkers\n")
	return os.WriteFile(outFile, []byte(b.String()), 0o644)
}

func init() {
	generators = append(generators, func(l *Loader, outdir string) error { return genWalkers(l, outdir) })
}
