package main

// Statement-by-statement translation of a small subset of Go into Lean 4 definitions.
//
// Subset: const-folded literals, locals, struct field reads (and receiver field writes),
// arithmetic / comparison / logical operators, float64()/int() conversions,
// math.{Round,Ceil,Floor,Min,Max,Abs,Log2,Log10}, calls to other translated functions,
// fmt.Errorf / errors.New / *Error constructors (→ "an error"), `:=`, `=`, `+=`, `-=`, `*=`, `++`, `--`,
// `if [init;] c {…} [else …]`, `switch { case c: … }`, `switch x { case v: … }`, `return`.
// Everything else makes the translator FAIL (a broken tie), it never guesses.
//
// Types: int kinds → Int, float64 → the abstract carrier F (class PV.Arith), bool → Bool,
// string → String, error → Bool (true = non-nil).

import (
	"fmt"
	"go/ast"
	"go/constant"
	"go/token"
	"go/types"
	"math/big"
	"sort"
	"strings"
)

type FuncSpec struct {
	GoName   string // "Recv.Name" or "Name"
	LeanName string
	decl     *ast.FuncDecl
	mutates  bool
}

type Translator struct {
	pkg     *Pkg
	funcs   map[string]*FuncSpec // by Go func object name (method: "Recv.Name")
	structs map[string]bool      // translated struct names
	aliases map[string]string    // dotted Go selector path → Lean term
	idents  map[string]string    // Go identifier (constant / package var) → Lean term
	// per function
	recvObj  types.Object
	recvName string
	mutates  bool
	fresh    int
	dropRecv      bool
	paramOverride map[string]string
	written  map[string]bool // receiver fields this function writes (tracked as locals <recv>_<Field>)
	reads    map[string]map[string]bool // per translated func key: receiver fields it reads (transitively)
}

type trErr struct{ msg string }

func (t *Translator) fail(n ast.Node, format string, a ...any) {
	pos := t.pkg.Fset.Position(n.Pos())
	panic(trErr{fmt.Sprintf("%s:%d: untranslatable: %s", pos.Filename, pos.Line, fmt.Sprintf(format, a...))})
}

func (t *Translator) typeOf(e ast.Expr) types.Type {
	tv, ok := t.pkg.Info.Types[e]
	if !ok || tv.Type == nil {
		if id, ok := e.(*ast.Ident); ok {
			if o := t.pkg.Info.Uses[id]; o != nil {
				return o.Type()
			}
			if o := t.pkg.Info.Defs[id]; o != nil {
				return o.Type()
			}
		}
		t.fail(e, "no type for expression")
	}
	return tv.Type
}

type kind int

const (
	kInt kind = iota
	kFloat
	kBool
	kString
	kError
	kStruct
	kOther
)

func (t *Translator) kindOfType(ty types.Type) kind {
	if ty == nil {
		return kOther
	}
	if n, ok := ty.(*types.Named); ok && n.Obj().Name() == "error" && n.Obj().Pkg() == nil {
		return kError
	}
	switch u := ty.Underlying().(type) {
	case *types.Basic:
		switch {
		case u.Info()&types.IsInteger != 0:
			return kInt
		case u.Info()&types.IsFloat != 0:
			return kFloat
		case u.Info()&types.IsBoolean != 0:
			return kBool
		case u.Info()&types.IsString != 0:
			return kString
		}
	case *types.Struct:
		return kStruct
	case *types.Pointer:
		if _, ok := u.Elem().Underlying().(*types.Struct); ok {
			return kStruct
		}
	case *types.Interface:
		if ty.String() == "error" {
			return kError
		}
	}
	return kOther
}

func (t *Translator) kindOf(e ast.Expr) kind { return t.kindOfType(t.typeOf(e)) }

func (t *Translator) leanType(ty types.Type, n ast.Node) string {
	switch t.kindOfType(ty) {
	case kInt:
		return "Int"
	case kFloat:
		return "F"
	case kBool:
		return "Bool"
	case kString:
		return "String"
	case kError:
		return "Bool"
	case kStruct:
		if p, ok := ty.Underlying().(*types.Pointer); ok {
			ty = p.Elem()
		}
		if p, ok := ty.(*types.Pointer); ok {
			ty = p.Elem()
		}
		if nm, ok := ty.(*types.Named); ok && t.structs[nm.Obj().Name()] {
			return "(" + nm.Obj().Name() + " F)"
		}
	}
	t.fail(n, "type %v outside the subset", ty)
	return ""
}

func ratString(v constant.Value) string {
	switch v.Kind() {
	case constant.Int:
		i, _ := new(big.Int).SetString(v.ExactString(), 10)
		if i == nil {
			return v.ExactString()
		}
		if i.Sign() < 0 {
			return "(" + i.String() + ")"
		}
		return i.String()
	case constant.Float:
		r, ok := new(big.Rat).SetString(v.ExactString())
		if !ok {
			return v.ExactString()
		}
		if r.IsInt() {
			if r.Sign() < 0 {
				return "(" + r.Num().String() + ")"
			}
			return r.Num().String()
		}
		if r.Sign() < 0 {
			return "(" + r.Num().String() + " / " + r.Denom().String() + ")"
		}
		return "(" + r.Num().String() + " / " + r.Denom().String() + ")"
	}
	return v.ExactString()
}

// litString renders a float constant as the exact rational num/den it denotes.
func litString(v constant.Value) string {
	r, ok := new(big.Rat).SetString(v.ExactString())
	if !ok {
		if f, ok2 := constant.Float64Val(v); ok2 || true {
			r = new(big.Rat).SetFloat64(f)
		}
	}
	n := r.Num().String()
	if r.Sign() < 0 {
		n = "(" + n + ")"
	}
	return "(Arith.lit " + n + " " + r.Denom().String() + " : F)"
}

func selectorPath(e ast.Expr) (string, bool) {
	switch x := e.(type) {
	case *ast.Ident:
		return x.Name, true
	case *ast.SelectorExpr:
		p, ok := selectorPath(x.X)
		if !ok {
			return "", false
		}
		return p + "." + x.Sel.Name, true
	case *ast.ParenExpr:
		return selectorPath(x.X)
	}
	return "", false
}

// val translates an expression in value position.
func (t *Translator) val(e ast.Expr) string {
	if p, ok := e.(*ast.ParenExpr); ok {
		return t.val(p.X)
	}
	if path, ok := selectorPath(e); ok {
		if a, ok := t.aliases[path]; ok {
			return a
		}
	}
	if id, ok := e.(*ast.Ident); ok {
		if a, ok := t.idents[id.Name]; ok {
			return a
		}
		if id.Name == "nil" {
			return "false"
		}
	}
	if tv, ok := t.pkg.Info.Types[e]; ok && tv.Value != nil {
		switch t.kindOfType(tv.Type) {
		case kInt:
			return ratString(constant.ToInt(tv.Value))
		case kFloat:
			return litString(constant.ToFloat(tv.Value))
		case kBool:
			if constant.BoolVal(tv.Value) {
				return "true"
			}
			return "false"
		case kString:
			return fmt.Sprintf("%q", constant.StringVal(tv.Value))
		}
		t.fail(e, "constant of unsupported type %v", tv.Type)
	}
	switch x := e.(type) {
	case *ast.Ident:
		if x.Name == "true" || x.Name == "false" {
			return x.Name
		}
		obj := t.pkg.Info.Uses[x]
		if obj == nil {
			obj = t.pkg.Info.Defs[x]
		}
		if v, ok := obj.(*types.Var); ok && !v.IsField() && v.Parent() != nil && v.Parent() == v.Pkg().Scope() {
			t.fail(e, "package-level variable %s", x.Name)
		}
		return leanIdent(x.Name)
	case *ast.SelectorExpr:
		if sel, ok := t.pkg.Info.Selections[x]; ok && sel.Kind() == types.FieldVal {
			if id, ok := x.X.(*ast.Ident); ok && t.recvObj != nil && t.pkg.Info.Uses[id] == t.recvObj && t.written[x.Sel.Name] {
				return t.recvName + "_" + x.Sel.Name
			}
			return t.val(x.X) + "." + leanIdent(x.Sel.Name)
		}
		t.fail(e, "selector %s", x.Sel.Name)
	case *ast.UnaryExpr:
		switch x.Op {
		case token.SUB:
			return "(-" + t.val(x.X) + ")"
		case token.NOT:
			return "(!" + t.val(x.X) + ")"
		case token.ADD:
			return t.val(x.X)
		}
		t.fail(e, "unary %s", x.Op)
	case *ast.BinaryExpr:
		switch x.Op {
		case token.ADD, token.SUB, token.MUL:
			if t.kindOf(e) == kString {
				return "(" + t.val(x.X) + " ++ " + t.val(x.Y) + ")"
			}
			return "(" + t.val(x.X) + " " + x.Op.String() + " " + t.val(x.Y) + ")"
		case token.QUO:
			if t.kindOf(e) == kInt {
				return "(Int.tdiv " + t.val(x.X) + " " + t.val(x.Y) + ")"
			}
			return "(" + t.val(x.X) + " / " + t.val(x.Y) + ")"
		case token.REM:
			return "(Int.tmod " + t.val(x.X) + " " + t.val(x.Y) + ")"
		case token.LSS, token.LEQ, token.GTR, token.GEQ, token.EQL, token.NEQ, token.LAND, token.LOR:
			return "(decide " + t.cond(e) + ")"
		}
		t.fail(e, "binary %s", x.Op)
	case *ast.CallExpr:
		return t.call(x)
	}
	t.fail(e, "expression %T", e)
	return ""
}

// cond translates a boolean expression in condition position (a decidable Prop).
func (t *Translator) cond(e ast.Expr) string {
	switch x := e.(type) {
	case *ast.ParenExpr:
		return t.cond(x.X)
	case *ast.UnaryExpr:
		if x.Op == token.NOT {
			return "(¬ " + t.cond(x.X) + ")"
		}
	case *ast.BinaryExpr:
		op := ""
		switch x.Op {
		case token.LAND:
			return "(" + t.cond(x.X) + " ∧ " + t.cond(x.Y) + ")"
		case token.LOR:
			return "(" + t.cond(x.X) + " ∨ " + t.cond(x.Y) + ")"
		case token.LSS:
			op = "<"
		case token.LEQ:
			op = "≤"
		case token.GTR:
			op = ">"
		case token.GEQ:
			op = "≥"
		case token.EQL:
			op = "="
		case token.NEQ:
			op = "≠"
		}
		if op != "" {
			// comparisons with nil: only for error values
			if id, ok := x.Y.(*ast.Ident); ok && id.Name == "nil" {
				if t.kindOf(x.X) != kError {
					t.fail(e, "nil comparison of a non-error value")
				}
				if op == "≠" {
					return "(" + t.val(x.X) + " = true)"
				}
				return "(" + t.val(x.X) + " = false)"
			}
			return "(" + t.val(x.X) + " " + op + " " + t.val(x.Y) + ")"
		}
	}
	if t.kindOf(e) != kBool {
		t.fail(e, "condition is not boolean")
	}
	return "(" + t.val(e) + " = true)"
}

var mathFns = map[string]string{
	"Round": "Arith.round", "Ceil": "Arith.ceil", "Floor": "Arith.floor", "Abs": "Arith.abs",
	"Log2": "Arith.log2", "Log10": "Arith.log10", "Min": "Arith.fmin", "Max": "Arith.fmax",
}

func (t *Translator) call(c *ast.CallExpr) string {
	// conversions
	if tv, ok := t.pkg.Info.Types[c.Fun]; ok && tv.IsType() {
		if len(c.Args) != 1 {
			t.fail(c, "conversion arity")
		}
		from, to := t.kindOf(c.Args[0]), t.kindOfType(tv.Type)
		a := t.val(c.Args[0])
		switch {
		case from == to:
			return a
		case from == kInt && to == kFloat:
			return "(Arith.ofInt " + a + " : F)"
		case from == kFloat && to == kInt:
			return "(Arith.trunc " + a + ")"
		}
		t.fail(c, "conversion %v", tv.Type)
	}
	args := func() string {
		s := ""
		for _, a := range c.Args {
			s += " " + t.val(a)
		}
		return s
	}
	switch f := c.Fun.(type) {
	case *ast.Ident:
		if f.Name == "len" && len(c.Args) == 1 {
			return "(" + t.val(c.Args[0]) + ".length : Int)"
		}
		if fs, ok := t.funcs[f.Name]; ok {
			if fs.mutates {
				t.fail(c, "call of a mutating function inside an expression")
			}
			return "(" + fs.LeanName + " F" + args() + ")"
		}
		if t.kindOf(c) == kError {
			return "true"
		}
		t.fail(c, "call of %s (not in the translated set)", f.Name)
	case *ast.SelectorExpr:
		if pk, ok := f.X.(*ast.Ident); ok {
			if pn, ok := t.pkg.Info.Uses[pk].(*types.PkgName); ok {
				switch pn.Imported().Path() {
				case "math":
					if m, ok := mathFns[f.Sel.Name]; ok {
						return "(" + m + args() + ")"
					}
				case "fmt", "errors":
					if t.kindOf(c) == kError {
						return "true"
					}
				}
				if t.kindOf(c) == kError {
					return "true" // NewValidationError(...) and the like: an error value
				}
				t.fail(c, "call of %s.%s", pk.Name, f.Sel.Name)
			}
		}
		// method call on a translated receiver
		if sel, ok := t.pkg.Info.Selections[f]; ok && sel.Kind() == types.MethodVal {
			rt := sel.Recv()
			if p, ok := rt.(*types.Pointer); ok {
				rt = p.Elem()
			}
			if nm, ok := rt.(*types.Named); ok {
				key := nm.Obj().Name() + "." + f.Sel.Name
				if fs, ok := t.funcs[key]; ok {
					if fs.mutates {
						t.fail(c, "call of a mutating method inside an expression")
					}
					if id, ok := f.X.(*ast.Ident); ok && t.recvObj != nil && t.pkg.Info.Uses[id] == t.recvObj {
						// the callee sees the ORIGINAL receiver: sound only if it reads no field we write
						for fld := range t.written {
							if t.reads[key][fld] {
								t.fail(c, "callee %s reads receiver field %s which the caller writes", key, fld)
							}
						}
					}
					if t.dropRecv {
						return "(" + fs.LeanName + " F" + args() + ")"
					}
					return "(" + fs.LeanName + " F " + t.val(f.X) + args() + ")"
				}
				t.fail(c, "method %s not in the translated set", key)
			}
		}
		if t.kindOf(c) == kError {
			return "true"
		}
	}
	t.fail(c, "call")
	return ""
}

func leanIdent(s string) string {
	switch s {
	case "end", "at", "from", "to", "fun", "let", "in", "do", "then", "else", "if", "match", "with", "id", "Sub", "open", "local", "export", "type", "Type", "class", "instance", "where", "show", "have", "by":
		return s + "'"
	}
	return s
}

// ---- statements ------------------------------------------------------------------------

func alwaysReturns(stmts []ast.Stmt) bool {
	if len(stmts) == 0 {
		return false
	}
	switch s := stmts[len(stmts)-1].(type) {
	case *ast.ReturnStmt:
		return true
	case *ast.BlockStmt:
		return alwaysReturns(s.List)
	case *ast.IfStmt:
		if s.Else == nil {
			return false
		}
		return alwaysReturns(s.Body.List) && alwaysReturns([]ast.Stmt{s.Else})
	case *ast.SwitchStmt:
		hasDefault := false
		for _, c := range s.Body.List {
			cc := c.(*ast.CaseClause)
			if cc.List == nil {
				hasDefault = true
			}
			if !alwaysReturns(cc.Body) {
				return false
			}
		}
		return hasDefault
	}
	return false
}

func containsReturn(n ast.Node) bool {
	found := false
	ast.Inspect(n, func(m ast.Node) bool {
		if _, ok := m.(*ast.ReturnStmt); ok {
			found = true
		}
		if _, ok := m.(*ast.FuncLit); ok {
			return false
		}
		return !found
	})
	return found
}

// assignedOuter lists (sorted) the names of variables declared outside n and assigned inside it.
func (t *Translator) assignedOuter(n ast.Node) []string {
	set := map[string]bool{}
	note := func(lhs ast.Expr) {
		switch x := lhs.(type) {
		case *ast.Ident:
			obj := t.pkg.Info.Uses[x]
			if obj == nil {
				return // a definition (:=) of a new variable
			}
			if obj.Pos() < n.Pos() || obj.Pos() > n.End() {
				set[x.Name] = true
			}
		case *ast.SelectorExpr:
			root := x.X
			for {
				if s, ok := root.(*ast.SelectorExpr); ok {
					root = s.X
					continue
				}
				break
			}
			if id, ok := root.(*ast.Ident); ok && root == x.X {
				set[id.Name+"_"+x.Sel.Name] = true
			} else {
				t.fail(lhs, "assignment target")
			}
		default:
			t.fail(lhs, "assignment target %T", lhs)
		}
	}
	ast.Inspect(n, func(m ast.Node) bool {
		switch s := m.(type) {
		case *ast.AssignStmt:
			for _, l := range s.Lhs {
				note(l)
			}
		case *ast.IncDecStmt:
			note(s.X)
		}
		return true
	})
	out := []string{}
	for k := range set {
		out = append(out, k)
	}
	sort.Strings(out)
	return out
}

// switchToIf rewrites an expression-less or tagged switch into an if-chain.
func (t *Translator) switchToIf(s *ast.SwitchStmt) []ast.Stmt {
	var pre []ast.Stmt
	if s.Init != nil {
		pre = append(pre, s.Init)
	}
	var clauses []*ast.CaseClause
	var def *ast.CaseClause
	for _, c := range s.Body.List {
		cc := c.(*ast.CaseClause)
		for _, st := range cc.Body {
			if b, ok := st.(*ast.BranchStmt); ok {
				t.fail(b, "branch statement in switch")
			}
		}
		if cc.List == nil {
			def = cc
		} else {
			clauses = append(clauses, cc)
		}
	}
	var build func(i int) ast.Stmt
	build = func(i int) ast.Stmt {
		if i == len(clauses) {
			if def == nil {
				return nil
			}
			return &ast.BlockStmt{Lbrace: def.Pos(), List: def.Body, Rbrace: def.End()}
		}
		cc := clauses[i]
		var c ast.Expr
		for _, e := range cc.List {
			var one ast.Expr = e
			if s.Tag != nil {
				one = &ast.BinaryExpr{X: s.Tag, Op: token.EQL, Y: e, OpPos: e.Pos()}
			}
			if c == nil {
				c = one
			} else {
				c = &ast.BinaryExpr{X: c, Op: token.LOR, Y: one, OpPos: e.Pos()}
			}
		}
		ifs := &ast.IfStmt{If: cc.Pos(), Cond: c, Body: &ast.BlockStmt{Lbrace: cc.Pos(), List: cc.Body, Rbrace: cc.End()}}
		if e := build(i + 1); e != nil {
			ifs.Else = e
		}
		return ifs
	}
	if len(clauses) == 0 {
		if def != nil {
			return append(pre, def.Body...)
		}
		return pre
	}
	return append(pre, build(0))
}

// block translates stmts followed by `tail()` (what to produce when control falls off the end).
func (t *Translator) block(stmts []ast.Stmt, ind string, tail func() string) string {
	if len(stmts) == 0 {
		return ind + tail()
	}
	s, rest := stmts[0], stmts[1:]
	next := func() string { return t.block(rest, ind, tail) }
	switch x := s.(type) {
	case *ast.EmptyStmt:
		return next()
	case *ast.BlockStmt:
		return t.block(append(append([]ast.Stmt{}, x.List...), rest...), ind, tail)
	case *ast.ReturnStmt:
		return ind + t.ret(x)
	case *ast.DeclStmt:
		gd, ok := x.Decl.(*ast.GenDecl)
		if !ok || gd.Tok != token.VAR {
			t.fail(s, "declaration")
		}
		out := ""
		for _, sp := range gd.Specs {
			vs := sp.(*ast.ValueSpec)
			for i, n := range vs.Names {
				var v string
				if i < len(vs.Values) {
					v = t.val(vs.Values[i])
				} else {
					switch t.kindOfType(t.pkg.Info.Defs[n].Type()) {
					case kInt:
						v = "0"
					case kFloat:
						v = "(Arith.lit 0 1 : F)"
					case kBool, kError:
						v = "false"
					case kString:
						v = "\"\""
					default:
						t.fail(s, "zero value")
					}
				}
				out += ind + "let " + leanIdent(n.Name) + " : " + t.leanType(t.pkg.Info.Defs[n].Type(), n) + " := " + v + "\n"
			}
		}
		return out + next()
	case *ast.AssignStmt:
		if len(x.Lhs) != 1 || len(x.Rhs) != 1 {
			t.fail(s, "multi-assignment")
		}
		return t.assign(x.Lhs[0], x.Tok, x.Rhs[0], ind) + next()
	case *ast.IncDecStmt:
		op := token.ADD_ASSIGN
		if x.Tok == token.DEC {
			op = token.SUB_ASSIGN
		}
		one := &ast.BasicLit{Kind: token.INT, Value: "1", ValuePos: x.Pos()}
		return t.assignRaw(x.X, op, "1", ind, one) + next()
	case *ast.SwitchStmt:
		return t.block(append(t.switchToIf(x), rest...), ind, tail)
	case *ast.ExprStmt:
		t.fail(s, "expression statement (side effect)")
	case *ast.IfStmt:
		pre := ""
		if x.Init != nil {
			as, ok := x.Init.(*ast.AssignStmt)
			if !ok || len(as.Lhs) != 1 || len(as.Rhs) != 1 {
				t.fail(s, "if-init")
			}
			pre = t.assign(as.Lhs[0], as.Tok, as.Rhs[0], ind)
		}
		c := t.cond(x.Cond)
		thenB := x.Body.List
		var elseB []ast.Stmt
		if x.Else != nil {
			elseB = []ast.Stmt{x.Else}
		}
		aRet, bRet := alwaysReturns(thenB), alwaysReturns(elseB)
		in2 := ind + "  "
		switch {
		case aRet && bRet:
			return pre + ind + "if " + c + " then\n" + t.block(thenB, in2, tail) + "\n" + ind + "else\n" + t.block(elseB, in2, tail)
		case aRet:
			return pre + ind + "if " + c + " then\n" + t.block(thenB, in2, tail) + "\n" + ind + "else\n" + t.block(append(append([]ast.Stmt{}, elseB...), rest...), in2, tail)
		case bRet:
			return pre + ind + "if " + c + " then\n" + t.block(append(append([]ast.Stmt{}, thenB...), rest...), in2, tail) + "\n" + ind + "else\n" + t.block(elseB, in2, tail)
		case !containsReturn(x):
			vars := t.assignedOuter(x)
			if len(vars) == 0 {
				return pre + next() // no observable effect in a pure subset
			}
			out := pre
			if len(vars) == 1 {
				v := leanIdent(vars[0])
				y := func() string { return v }
				out += ind + "let " + v + " :=\n" + in2 + "if " + c + " then\n" + t.block(thenB, in2+"  ", y) + "\n" + in2 + "else\n" + t.block(elseB, in2+"  ", y) + "\n"
				return out + next()
			}
			t.fresh++
			sfx := fmt.Sprintf("_j%d", t.fresh)
			for _, v0 := range vars {
				v := leanIdent(v0)
				y := func() string { return v }
				out += ind + "let " + v0 + sfx + " :=\n" + in2 + "if " + c + " then\n" + t.block(thenB, in2+"  ", y) + "\n" + in2 + "else\n" + t.block(elseB, in2+"  ", y) + "\n"
			}
			for _, v0 := range vars {
				out += ind + "let " + leanIdent(v0) + " := " + v0 + sfx + "\n"
			}
			return out + next()
		default:
			// a return somewhere inside, but not on every path: duplicate the continuation
			return pre + ind + "if " + c + " then\n" + t.block(append(append([]ast.Stmt{}, thenB...), rest...), in2, tail) + "\n" + ind + "else\n" + t.block(append(append([]ast.Stmt{}, elseB...), rest...), in2, tail)
		}
	}
	t.fail(s, "statement %T", s)
	return ""
}

func (t *Translator) assign(lhs ast.Expr, tok token.Token, rhs ast.Expr, ind string) string {
	return t.assignRaw(lhs, tok, t.val(rhs), ind, rhs)
}

func (t *Translator) assignRaw(lhs ast.Expr, tok token.Token, rv string, ind string, rhsNode ast.Expr) string {
	cur := func() string { return t.val(lhs) }
	var v string
	switch tok {
	case token.DEFINE, token.ASSIGN:
		v = rv
	case token.ADD_ASSIGN:
		v = "(" + cur() + " + " + rv + ")"
	case token.SUB_ASSIGN:
		v = "(" + cur() + " - " + rv + ")"
	case token.MUL_ASSIGN:
		v = "(" + cur() + " * " + rv + ")"
	default:
		t.fail(lhs, "assignment operator %s", tok)
	}
	switch x := lhs.(type) {
	case *ast.Ident:
		if x.Name == "_" {
			return ""
		}
		ty := ""
		if tok == token.DEFINE {
			if o := t.pkg.Info.Defs[x]; o != nil {
				ty = " : " + t.leanType(o.Type(), x)
			}
		}
		return ind + "let " + leanIdent(x.Name) + ty + " := " + v + "\n"
	case *ast.SelectorExpr:
		id, ok := x.X.(*ast.Ident)
		if !ok {
			t.fail(lhs, "nested field write")
		}
		if t.recvObj == nil || t.pkg.Info.Uses[id] != t.recvObj {
			t.fail(lhs, "field write through a non-receiver")
		}
		return ind + "let " + id.Name + "_" + x.Sel.Name + " := " + v + "\n"
	}
	t.fail(lhs, "assignment target")
	return ""
}

func (t *Translator) ret(r *ast.ReturnStmt) string {
	var v string
	switch len(r.Results) {
	case 0:
		v = "()"
	case 1:
		v = t.val(r.Results[0])
	default:
		t.fail(r, "multiple results")
	}
	if t.mutates {
		return "(" + v + ", " + t.finalRecv() + ")"
	}
	return v
}

func (t *Translator) finalRecv() string {
	var fs []string
	for f := range t.written {
		fs = append(fs, f)
	}
	sort.Strings(fs)
	parts := []string{}
	for _, f := range fs {
		parts = append(parts, leanIdent(f)+" := "+t.recvName+"_"+f)
	}
	return "{ " + leanIdent(t.recvName) + " with " + strings.Join(parts, ", ") + " }"
}

func writesReceiver(fd *ast.FuncDecl, info *types.Info) bool {
	if fd.Recv == nil || len(fd.Recv.List) != 1 || len(fd.Recv.List[0].Names) != 1 {
		return false
	}
	recv := info.Defs[fd.Recv.List[0].Names[0]]
	found := false
	ast.Inspect(fd.Body, func(n ast.Node) bool {
		check := func(e ast.Expr) {
			if s, ok := e.(*ast.SelectorExpr); ok {
				if id, ok := s.X.(*ast.Ident); ok && info.Uses[id] == recv {
					found = true
				}
			}
		}
		switch s := n.(type) {
		case *ast.AssignStmt:
			for _, l := range s.Lhs {
				check(l)
			}
		case *ast.IncDecStmt:
			check(s.X)
		}
		return true
	})
	return found
}

// writtenFields: receiver fields assigned in fd.
func writtenFields(fd *ast.FuncDecl, info *types.Info) map[string]bool {
	out := map[string]bool{}
	if fd.Recv == nil || len(fd.Recv.List) != 1 || len(fd.Recv.List[0].Names) != 1 {
		return out
	}
	recv := info.Defs[fd.Recv.List[0].Names[0]]
	ast.Inspect(fd.Body, func(n ast.Node) bool {
		check := func(e ast.Expr) {
			if s, ok := e.(*ast.SelectorExpr); ok {
				if id, ok := s.X.(*ast.Ident); ok && info.Uses[id] == recv {
					out[s.Sel.Name] = true
				}
			}
		}
		switch s := n.(type) {
		case *ast.AssignStmt:
			for _, l := range s.Lhs {
				check(l)
			}
		case *ast.IncDecStmt:
			check(s.X)
		}
		return true
	})
	return out
}

// readFields: receiver fields read in fd (directly), and receiver methods it calls.
func readFields(fd *ast.FuncDecl, info *types.Info) (map[string]bool, []string) {
	out := map[string]bool{}
	var calls []string
	if fd.Recv == nil || len(fd.Recv.List) != 1 || len(fd.Recv.List[0].Names) != 1 {
		return out, nil
	}
	recv := info.Defs[fd.Recv.List[0].Names[0]]
	ast.Inspect(fd.Body, func(n ast.Node) bool {
		if s, ok := n.(*ast.SelectorExpr); ok {
			if id, ok := s.X.(*ast.Ident); ok && info.Uses[id] == recv {
				if sel, ok := info.Selections[s]; ok && sel.Kind() == types.MethodVal {
					calls = append(calls, s.Sel.Name)
				} else {
					out[s.Sel.Name] = true
				}
			}
		}
		return true
	})
	return out, calls
}

// Func translates one function declaration into a Lean `def`.
func (t *Translator) Func(fs *FuncSpec) (out string, err error) {
	defer func() {
		if r := recover(); r != nil {
			if te, ok := r.(trErr); ok {
				err = fmt.Errorf("%s", te.msg)
				return
			}
			panic(r)
		}
	}()
	fd := fs.decl
	t.recvObj, t.recvName, t.mutates, t.fresh = nil, "", fs.mutates, 0
	params := ""
	if fd.Recv != nil {
		f := fd.Recv.List[0]
		if len(f.Names) != 1 {
			t.fail(fd, "anonymous receiver")
		}
		t.recvName = f.Names[0].Name
		t.recvObj = t.pkg.Info.Defs[f.Names[0]]
		if !t.dropRecv {
			params += " (" + leanIdent(t.recvName) + " : " + t.leanType(t.recvObj.Type(), fd) + ")"
		}
	}
	for _, f := range fd.Type.Params.List {
		for _, n := range f.Names {
			if ov, ok := t.paramOverride[n.Name]; ok {
				if ov != "" {
					params += " " + ov
				}
				continue
			}
			params += " (" + leanIdent(n.Name) + " : " + t.leanType(t.pkg.Info.Defs[n].Type(), n) + ")"
		}
	}
	res := "Unit"
	if fd.Type.Results != nil {
		if len(fd.Type.Results.List) != 1 || len(fd.Type.Results.List[0].Names) > 1 {
			t.fail(fd, "result list")
		}
		res = t.leanType(t.typeOf(fd.Type.Results.List[0].Type), fd)
	}
	if t.mutates {
		res = "(" + res + " × " + t.leanType(t.recvObj.Type(), fd) + ")"
	}
	tail := func() string {
		if fd.Type.Results != nil {
			t.fail(fd, "control reaches the end of a function with a result")
		}
		if t.mutates {
			return "((), " + t.finalRecv() + ")"
		}
		return "()"
	}
	pre := ""
	t.written = map[string]bool{}
	if t.mutates {
		for f := range writtenFields(fd, t.pkg.Info) {
			t.written[f] = true
		}
		var fl []string
		for f := range t.written {
			fl = append(fl, f)
		}
		sort.Strings(fl)
		for _, f := range fl {
			pre += "  let " + t.recvName + "_" + f + " := " + leanIdent(t.recvName) + "." + leanIdent(f) + "\n"
		}
	}
	body := pre + t.block(fd.Body.List, "  ", tail)
	pos := t.pkg.Fset.Position(fd.Pos())
	hdr := fmt.Sprintf("/-- translated from %s:%d `%s` -/\n", strings.TrimPrefix(pos.Filename, "/repo/"), pos.Line, fs.GoName)
	return hdr + "def " + fs.LeanName + " (F : Type) [Arith F]" + params + " : " + res + " :=\n" + body + "\n", nil
}

// Struct translates a struct type into a Lean structure parametrised by the float carrier.
func (t *Translator) Struct(name string) (string, error) {
	obj := t.pkg.Types.Scope().Lookup(name)
	if obj == nil {
		return "", fmt.Errorf("struct %s not found", name)
	}
	st, ok := obj.Type().Underlying().(*types.Struct)
	if !ok {
		return "", fmt.Errorf("%s is not a struct", name)
	}
	var b strings.Builder
	fmt.Fprintf(&b, "structure %s (F : Type) [Arith F] where\n", name)
	for i := 0; i < st.NumFields(); i++ {
		f := st.Field(i)
		switch t.kindOfType(f.Type()) {
		case kInt:
			fmt.Fprintf(&b, "  %s : Int := 0\n", leanIdent(f.Name()))
		case kFloat:
			fmt.Fprintf(&b, "  %s : F := Arith.lit 0 1\n", leanIdent(f.Name()))
		case kBool:
			fmt.Fprintf(&b, "  %s : Bool := false\n", leanIdent(f.Name()))
		case kString:
			fmt.Fprintf(&b, "  %s : String := \"\"\n", leanIdent(f.Name()))
		default:
			return "", fmt.Errorf("struct %s field %s: type %v outside the subset", name, f.Name(), f.Type())
		}
	}
	return b.String(), nil
}
