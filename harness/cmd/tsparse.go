//go:build verif

package main

import (
	"context"
	"encoding/hex"
	"encoding/json"
	"os"

	sitter "github.com/smacker/go-tree-sitter"
	"github.com/smacker/go-tree-sitter/python"
)

// tsparse: "can these bytes be parsed as Python?" answered by the tree-sitter Python grammar itself, NOT by pyscn's
// parser gate (internal/parser.Parse). The parser object is created exactly as parser.New() creates it; nothing of
// pyscn's own code is on the path, so a gate that forgets some syntax errors cannot make this oracle forget them too.
//
// in : {"Path": file} | {"Hex": bytes} | {"Src": text}
// out: {"has_error": root.HasError(), "error_depth": depth of the first ERROR/MISSING node below the root (-1: none),
//       "error_line": 1-based line of that node (0: none), "bytes": n}
// The depth is found with a tree cursor and a loop (no recursion, no depth limit).

func init() {
	handlers["tsparse"] = func(raw json.RawMessage) (any, error) {
		var in struct {
			Path string
			Hex  string
			Src  string
		}
		if err := json.Unmarshal(raw, &in); err != nil {
			return nil, err
		}
		var src []byte
		switch {
		case in.Path != "":
			b, err := os.ReadFile(in.Path)
			if err != nil {
				return nil, err
			}
			src = b
		case in.Hex != "":
			b, err := hex.DecodeString(in.Hex)
			if err != nil {
				return nil, err
			}
			src = b
		default:
			src = []byte(in.Src)
		}
		p := sitter.NewParser()
		p.SetLanguage(python.GetLanguage())
		tree, err := p.ParseCtx(context.Background(), nil, src)
		if err != nil {
			return map[string]any{"parse_failed": err.Error(), "bytes": len(src)}, nil
		}
		defer tree.Close()
		root := tree.RootNode()
		out := map[string]any{"has_error": root.HasError(), "error_depth": -1, "error_line": 0, "bytes": len(src)}
		if !root.HasError() {
			return out, nil
		}
		cur := sitter.NewTreeCursor(root)
		defer cur.Close()
		depth := 0
		for {
			n := cur.CurrentNode()
			if n.IsError() || n.IsMissing() {
				out["error_depth"] = depth
				out["error_line"] = int(n.StartPoint().Row) + 1
				break
			}
			if n.HasError() {
				if !cur.GoToFirstChild() {
					break
				}
				depth++
				continue
			}
			if !cur.GoToNextSibling() {
				break
			}
		}
		return out, nil
	}
}
