//go:build verif

package main

import (
	"encoding/json"
	"fmt"
	"sort"

	"github.com/ludo-technologies/pyscn/internal/analyzer"
)

type groupIn struct {
	N     int
	Pairs [][3]int // u, v, similarity numerator
	Den   int      // similarity = num / Den (dyadic grid)
	Theta int      // threshold numerator
	K     int
	Mode  string
	Reps  int
	Files int // fragments are spread over this many files (location order = vertex order)
	Via   string  // "" = the strategy object directly; "detector" / "detector-lsh" = through a CloneDetector as the service does (SetUseLSH false / true)
	Twins [][]int // classes of fragments that carry IDENTICAL syntax trees (all other fragments carry pairwise very different trees); empty = no trees at all
}

// tree of a fragment: members of one twin class get the same shape and labels, everybody else a shape of its own
func groupTree(class int) *analyzer.TreeNode {
	id := 0
	mk := func(l string) *analyzer.TreeNode { id++; return analyzer.NewTreeNode(id, l) }
	root := mk("FunctionDef(f)")
	cur := root
	for d := 0; d < 3+class%5; d++ {
		n := mk(fmt.Sprintf("Shape%d_%d", class, d))
		cur.AddChild(n)
		for k := 0; k < 1+(class+d)%3; k++ {
			n.AddChild(mk(fmt.Sprintf("Leaf%d_%d_%d", class, d, k)))
		}
		cur = n
	}
	return root
}

func init() {
	handlers["group"] = func(raw json.RawMessage) (any, error) {
		var in groupIn
		if err := json.Unmarshal(raw, &in); err != nil {
			return nil, err
		}
		if in.Reps <= 0 {
			in.Reps = 1
		}
		if in.Files <= 0 {
			in.Files = 1
		}
		var runs []map[string]any
		for r := 0; r < in.Reps; r++ {
			frags := make([]*analyzer.CodeFragment, in.N)
			idx := map[*analyzer.CodeFragment]int{}
			for i := 0; i < in.N; i++ {
				// location order == vertex order: file index grows with i, then line
				file := fmt.Sprintf("/p/f%03d.py", i*in.Files/in.N)
				frags[i] = &analyzer.CodeFragment{Location: &analyzer.CodeLocation{FilePath: file, StartLine: 10 * (i + 1), EndLine: 10*(i+1) + 5, StartCol: 0, EndCol: 0}, Size: 30, LineCount: 6}
				idx[frags[i]] = i
			}
			if len(in.Twins) > 0 {
				class := map[int]int{}
				for ci, tw := range in.Twins {
					for _, v := range tw {
						class[v] = ci
					}
				}
				for i := 0; i < in.N; i++ {
					c, ok := class[i]
					if !ok {
						c = len(in.Twins) + i
					}
					frags[i].TreeNode = groupTree(c)
				}
			}
			var pairs []*analyzer.ClonePair
			for _, p := range in.Pairs {
				sim := float64(p[2]) / float64(in.Den)
				pairs = append(pairs, &analyzer.ClonePair{Fragment1: frags[p[0]], Fragment2: frags[p[1]], Similarity: sim, Distance: 1 - sim, CloneType: analyzer.Type2Clone})
			}
			cfg := analyzer.GroupingConfig{Mode: analyzer.GroupingMode(in.Mode), Threshold: float64(in.Theta) / float64(in.Den), KCoreK: in.K,
				Type1Threshold: 0.95, Type2Threshold: 0.85, Type3Threshold: 0.75, Type4Threshold: 0.65}
			var groups []*analyzer.CloneGroup
			if in.Via == "" {
				groups = analyzer.CreateGroupingStrategy(cfg).GroupClones(pairs)
			} else {
				// the path the clone service takes: a detector configured with the mode, SetUseLSH as the service decides it, GroupClonePairs
				dc := analyzer.DefaultCloneDetectorConfig()
				dc.GroupingMode, dc.GroupingThreshold, dc.KCoreK = cfg.Mode, cfg.Threshold, cfg.KCoreK
				dc.Type1Threshold, dc.Type2Threshold, dc.Type3Threshold, dc.Type4Threshold = cfg.Type1Threshold, cfg.Type2Threshold, cfg.Type3Threshold, cfg.Type4Threshold
				det := analyzer.NewCloneDetector(dc)
				det.SetUseLSH(in.Via == "detector-lsh")
				groups = det.GroupClonePairs(pairs)
			}
			var gs [][]int
			sizeOK, sortedOK := true, true
			ids := []int{}
			for _, g := range groups {
				var m []int
				for _, f := range g.Fragments {
					m = append(m, idx[f])
				}
				if g.Size != len(g.Fragments) {
					sizeOK = false
				}
				if !sort.IntsAreSorted(m) {
					sortedOK = false
					sort.Ints(m)
				}
				gs = append(gs, m)
				ids = append(ids, g.ID)
			}
			order := make([][]int, len(gs))
			copy(order, gs)
			sort.Slice(gs, func(i, j int) bool { return gs[i][0] < gs[j][0] })
			if gs == nil {
				gs = [][]int{}
			}
			runs = append(runs, map[string]any{"groups": gs, "size_ok": sizeOK, "members_sorted": sortedOK, "emitted_order": order, "ids": ids})
		}
		return map[string]any{"runs": runs}, nil
	}
}
