//go:build verif

package main

import (
	"context"
	"encoding/json"
	"fmt"
	"os"
	"runtime"
	"time"

	mcpgo "github.com/mark3labs/mcp-go/mcp"

	pymcp "github.com/ludo-technologies/pyscn/mcp"
)

// mcp: the real MCP tool handlers, in process. {Tool, Args, Cwd} -> the tool's text result (parsed as JSON when it is JSON).

type mcpIn struct {
	Tool string
	Args map[string]any
	Cwd  string
}

func init() {
	handlers["mcp"] = func(raw json.RawMessage) (any, error) {
		var in mcpIn
		if err := json.Unmarshal(raw, &in); err != nil {
			return nil, err
		}
		if in.Cwd != "" {
			old, _ := os.Getwd()
			if err := os.Chdir(in.Cwd); err != nil {
				return nil, err
			}
			defer func() { _ = os.Chdir(old) }()
		}
		hs := pymcp.NewHandlerSet(pymcp.NewDependencies(nil, ""))
		return mcpCall(hs, in.Tool, in.Args), nil
	}
	// mcp_session: several calls on ONE HandlerSet, in order — what a running pyscn-mcp server does (cmd/pyscn-mcp creates a single handler set)
	handlers["mcp_session"] = func(raw json.RawMessage) (any, error) {
		var in struct {
			Calls []mcpIn
			Cwd   string
		}
		if err := json.Unmarshal(raw, &in); err != nil {
			return nil, err
		}
		if in.Cwd != "" {
			old, _ := os.Getwd()
			if err := os.Chdir(in.Cwd); err != nil {
				return nil, err
			}
			defer func() { _ = os.Chdir(old) }()
		}
		hs := pymcp.NewHandlerSet(pymcp.NewDependencies(nil, ""))
		outs := []any{}
		for _, c := range in.Calls {
			outs = append(outs, mcpCall(hs, c.Tool, c.Args))
		}
		return map[string]any{"outs": outs}, nil
	}
}

func mcpCall(hs *pymcp.HandlerSet, tool string, args map[string]any) map[string]any {
	return mcpCallCtx(context.Background(), hs, tool, args)
}

func init() {
	// mcp_cancel: the request context of an MCP call ends while the analyses are running (a client that gives up, a deadline). When the handler
	// returns, no analysis goroutine may still be running (the response is built from their results); the race-detector build of this harness
	// additionally sees an unsynchronised read of a result that is still being written.
	handlers["mcp_cancel"] = func(raw json.RawMessage) (any, error) {
		var in struct {
			Tool    string
			Args    map[string]any
			Cwd     string
			AfterMs []int
		}
		if err := json.Unmarshal(raw, &in); err != nil {
			return nil, err
		}
		if in.Cwd != "" {
			old, _ := os.Getwd()
			if err := os.Chdir(in.Cwd); err != nil {
				return nil, err
			}
			defer func() { _ = os.Chdir(old) }()
		}
		runs := []map[string]any{}
		for _, ms := range in.AfterMs {
			hs := pymcp.NewHandlerSet(pymcp.NewDependencies(nil, ""))
			runtime.GC()
			before := runtime.NumGoroutine()
			ctx, cancel := context.WithTimeout(context.Background(), time.Duration(ms)*time.Millisecond)
			t0 := time.Now()
			out := mcpCallCtx(ctx, hs, in.Tool, in.Args)
			took := time.Since(t0)
			after := runtime.NumGoroutine()
			cancel()
			// let stragglers (if any) finish, so that the race detector observes their writes and the next run starts clean
			waited := 0
			for runtime.NumGoroutine() > before && waited < 400 {
				time.Sleep(50 * time.Millisecond)
				waited++
			}
			_, hasJSON := out["json"]
			runs = append(runs, map[string]any{"after_ms": ms, "took_ms": took.Milliseconds(), "goroutines_before": before, "goroutines_at_return": after,
				"still_running_at_return": after - before, "settled_after_ms": waited * 50, "is_error": out["is_error"], "go_error": out["go_error"], "has_json": hasJSON})
		}
		return map[string]any{"runs": runs}, nil
	}
}

func mcpCallCtx(ctx context.Context, hs *pymcp.HandlerSet, tool string, args map[string]any) map[string]any {
	var req mcpgo.CallToolRequest
	req.Params.Name = tool
	req.Params.Arguments = args
	var res *mcpgo.CallToolResult
	var err error
	switch tool {
	case "analyze_code":
		res, err = hs.HandleAnalyzeCode(ctx, req)
	case "check_complexity":
		res, err = hs.HandleCheckComplexity(ctx, req)
	case "detect_clones":
		res, err = hs.HandleDetectClones(ctx, req)
	case "check_coupling":
		res, err = hs.HandleCheckCoupling(ctx, req)
	case "check_cohesion":
		res, err = hs.HandleCheckCohesion(ctx, req)
	case "find_dead_code":
		res, err = hs.HandleFindDeadCode(ctx, req)
	case "get_health_score":
		res, err = hs.HandleGetHealthScore(ctx, req)
	default:
		return map[string]any{"go_error": fmt.Sprintf("unknown tool %s", tool)}
	}
	if err != nil {
		return map[string]any{"go_error": err.Error()}
	}
	out := map[string]any{"is_error": res.IsError}
	for _, c := range res.Content {
		if tc, ok := c.(mcpgo.TextContent); ok {
			var v any
			if json.Unmarshal([]byte(tc.Text), &v) == nil {
				out["json"] = v
			} else {
				out["text"] = tc.Text
			}
		}
	}
	return out
}
