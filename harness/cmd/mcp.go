//go:build verif

package main

import (
	"context"
	"encoding/json"
	"fmt"
	"os"

	mcpgo "github.com/mark3labs/mcp-go/mcp"

	pymcp "github.com/ludo-technologies/pyscn/mcp"
)

// mcp: the real MCP tool handlers, in process. {Tool, Args, Cwd} -> the tool's text result (parsed as JSON when it is JSON).

type mcpIn struct {
	Tool string
	Args map[string]any
	Cwd  string
}

func init() {
	handlers["mcp"] = func(raw json.RawMessage) (any, error) {
		var in mcpIn
		if err := json.Unmarshal(raw, &in); err != nil {
			return nil, err
		}
		if in.Cwd != "" {
			old, _ := os.Getwd()
			if err := os.Chdir(in.Cwd); err != nil {
				return nil, err
			}
			defer func() { _ = os.Chdir(old) }()
		}
		hs := pymcp.NewHandlerSet(pymcp.NewDependencies(nil, ""))
		var req mcpgo.CallToolRequest
		req.Params.Name = in.Tool
		req.Params.Arguments = in.Args
		ctx := context.Background()
		var res *mcpgo.CallToolResult
		var err error
		switch in.Tool {
		case "analyze_code":
			res, err = hs.HandleAnalyzeCode(ctx, req)
		case "check_complexity":
			res, err = hs.HandleCheckComplexity(ctx, req)
		case "detect_clones":
			res, err = hs.HandleDetectClones(ctx, req)
		case "check_coupling":
			res, err = hs.HandleCheckCoupling(ctx, req)
		case "check_cohesion":
			res, err = hs.HandleCheckCohesion(ctx, req)
		case "find_dead_code":
			res, err = hs.HandleFindDeadCode(ctx, req)
		case "get_health_score":
			res, err = hs.HandleGetHealthScore(ctx, req)
		default:
			return nil, fmt.Errorf("unknown tool %s", in.Tool)
		}
		if err != nil {
			return map[string]any{"go_error": err.Error()}, nil
		}
		out := map[string]any{"is_error": res.IsError}
		for _, c := range res.Content {
			if tc, ok := c.(mcpgo.TextContent); ok {
				var v any
				if json.Unmarshal([]byte(tc.Text), &v) == nil {
					out["json"] = v
				} else {
					out["text"] = tc.Text
				}
			}
		}
		return out, nil
	}
}
