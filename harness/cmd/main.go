//go:build verif

// verifharness: line-protocol access to pyscn's real code, in process.
// Injected with `go build -tags verif -overlay` (nothing in /repo is edited).
// One request per stdin line: "<cmd> <json>"; one response line per request (JSON).
// Panics are recovered into {"error":"panic: ..."}.
package main

import (
	"bufio"
	"encoding/json"
	"fmt"
	"os"
	"strings"
)

type handler func(raw json.RawMessage) (any, error)

var handlers = map[string]handler{}

func main() {
	in := bufio.NewReaderSize(os.Stdin, 1<<20)
	out := bufio.NewWriterSize(os.Stdout, 1<<16)
	defer out.Flush()
	for {
		line, err := in.ReadString('\n')
		if len(line) > 0 {
			line = strings.TrimRight(line, "\r\n")
			if line != "" {
				resp := dispatch(line)
				b, jerr := json.Marshal(resp)
				if jerr != nil {
					b, _ = json.Marshal(map[string]string{"error": "marshal: " + jerr.Error()})
				}
				out.Write(b)
				out.WriteByte('\n')
				out.Flush()
			}
		}
		if err != nil {
			return
		}
	}
}

func dispatch(line string) (resp any) {
	defer func() {
		if r := recover(); r != nil {
			resp = map[string]string{"error": fmt.Sprintf("panic: %v", r)}
		}
	}()
	cmd, rest := line, ""
	if i := strings.IndexByte(line, ' '); i >= 0 {
		cmd, rest = line[:i], line[i+1:]
	}
	h, ok := handlers[cmd]
	if !ok {
		return map[string]string{"error": "unknown command " + cmd}
	}
	v, err := h(json.RawMessage(rest))
	if err != nil {
		return map[string]string{"error": err.Error()}
	}
	return v
}
