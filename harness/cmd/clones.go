//go:build verif

package main

import (
	"context"
	"encoding/json"
	"fmt"
	"hash/fnv"
	"math"

	"github.com/ludo-technologies/pyscn/domain"
	"github.com/ludo-technologies/pyscn/internal/analyzer"
	"github.com/ludo-technologies/pyscn/internal/parser"
	"github.com/ludo-technologies/pyscn/service"
)

// clones: the real clone pipeline (parser → fragment extraction → detector paths → service filter) in process,
// with every intermediate the Lean model needs (fragments, raw pair measurements, LSH stage data).

type clonesReq struct {
	MinLines, MinNodes         *int
	T1, T2, T3, T4             *float64
	Sim, MaxDist               *float64
	MinSim, MaxSim             *float64
	DFA                        *bool
	Types                      []int
	LSHBands, LSHRows, LSHHash *int
	LSHThr                     *float64
	LSHEnabled                 *string
	LSHAuto                    *int
}

type clonesIn struct {
	Files []struct {
		Path, Src string
	}
	Req            clonesReq
	MaxPairs       int   // 0 = leave the service's value
	BatchThreshold int   // 0 = leave the service's value
	BatchSizes     []int // forced batch sizes for the batched path
	Reverse        bool  // reverse the fragment order before detection
	Raw, LSH       bool
	// opt-in savings for callers that do not read a part (nothing changes when they are absent):
	Skip        []string // any of "std", "auto", "report_off": that part is not computed and its key is left out of the response
	ShareReport bool     // when the service would not use LSH for this request anyway, report_off IS report_cfg (the same deterministic sequence) and is not run twice
}

type fragOut struct {
	File           int
	Path           string
	S, E, SC, EC   int
	Size, Lines    int
	Type           string
	TreeKey        string
	NoTree         bool
	FeatCount      int
}

type pairOut struct {
	I, J      int
	Sim, Dist string // float64 bits, hex
	SimF      float64
	DistF     float64
	Type      int
}

func bits(f float64) string { return fmt.Sprintf("%016x", math.Float64bits(f)) }

func buildCloneRequest(r clonesReq) *domain.CloneRequest {
	req := domain.DefaultCloneRequest()
	req.EnableDFA = true
	if r.MinLines != nil {
		req.MinLines = *r.MinLines
	}
	if r.MinNodes != nil {
		req.MinNodes = *r.MinNodes
	}
	if r.T1 != nil {
		req.Type1Threshold = *r.T1
	}
	if r.T2 != nil {
		req.Type2Threshold = *r.T2
	}
	if r.T3 != nil {
		req.Type3Threshold = *r.T3
	}
	if r.T4 != nil {
		req.Type4Threshold = *r.T4
	}
	if r.Sim != nil {
		req.SimilarityThreshold = *r.Sim
	}
	if r.MaxDist != nil {
		req.MaxEditDistance = *r.MaxDist
	}
	if r.MinSim != nil {
		req.MinSimilarity = *r.MinSim
	}
	if r.MaxSim != nil {
		req.MaxSimilarity = *r.MaxSim
	}
	if r.DFA != nil {
		req.EnableDFA = *r.DFA
	}
	if r.Types != nil {
		req.CloneTypes = nil
		for _, t := range r.Types {
			req.CloneTypes = append(req.CloneTypes, domain.CloneType(t))
		}
	}
	if r.LSHBands != nil {
		req.LSHBands = *r.LSHBands
	}
	if r.LSHRows != nil {
		req.LSHRows = *r.LSHRows
	}
	if r.LSHHash != nil {
		req.LSHHashes = *r.LSHHash
	}
	if r.LSHThr != nil {
		req.LSHSimilarityThreshold = *r.LSHThr
	}
	if r.LSHEnabled != nil {
		req.LSHEnabled = *r.LSHEnabled
	}
	if r.LSHAuto != nil {
		req.LSHAutoThreshold = *r.LSHAuto
	}
	return req
}

func init() {
	handlers["clones"] = func(raw json.RawMessage) (any, error) {
		var in clonesIn
		if err := json.Unmarshal(raw, &in); err != nil {
			return nil, err
		}
		req := buildCloneRequest(in.Req)
		out := map[string]any{}
		if err := req.Validate(); err != nil {
			out["invalid"] = err.Error()
		}
		newDetector := func() *analyzer.CloneDetector {
			cfg := service.VerifCloneDetectorConfig(req)
			d := analyzer.NewCloneDetector(cfg)
			if in.MaxPairs > 0 {
				d.VerifSetMaxPairs(in.MaxPairs)
			}
			if in.BatchThreshold > 0 {
				d.VerifSetBatchThreshold(in.BatchThreshold)
			}
			return d
		}
		det := newDetector()
		ctx := context.Background()
		var frags []*analyzer.CodeFragment
		fileOf := map[*analyzer.CodeFragment]int{}
		parseErrs := map[string]string{}
		for fi, f := range in.Files {
			res, err := parser.New().Parse(ctx, []byte(f.Src))
			if err != nil || res == nil || res.AST == nil {
				parseErrs[f.Path] = fmt.Sprint(err)
				continue
			}
			for _, fr := range det.ExtractFragments([]*parser.Node{res.AST}, f.Path) {
				fileOf[fr] = fi
				frags = append(frags, fr)
			}
		}
		if in.Reverse {
			for i, j := 0, len(frags)-1; i < j; i, j = i+1, j-1 {
				frags[i], frags[j] = frags[j], frags[i]
			}
		}
		out["parse_errors"] = parseErrs
		det.VerifPrepare(frags)
		index := map[*analyzer.CodeFragment]int{}
		fo := []fragOut{}
		for i, fr := range frags {
			index[fr] = i
			h := fnv.New64a()
			_, _ = h.Write([]byte(analyzer.VerifTreeKey(fr.TreeNode)))
			fo = append(fo, fragOut{File: fileOf[fr], Path: fr.Location.FilePath, S: fr.Location.StartLine, E: fr.Location.EndLine,
				SC: fr.Location.StartCol, EC: fr.Location.EndCol, Size: fr.Size, Lines: fr.LineCount, Type: string(fr.ASTNode.Type),
				TreeKey: fmt.Sprintf("%016x", h.Sum64()), NoTree: fr.TreeNode == nil, FeatCount: len(fr.Features)})
		}
		out["frags"] = fo
		conv := func(ps []*analyzer.ClonePair) []pairOut {
			r := []pairOut{}
			for _, p := range ps {
				r = append(r, pairOut{I: index[p.Fragment1], J: index[p.Fragment2], Sim: bits(p.Similarity), Dist: bits(p.Distance),
					SimF: p.Similarity, DistF: p.Distance, Type: int(p.CloneType)})
			}
			return r
		}
		cfg := det.VerifConfig()
		out["cfg"] = map[string]any{"MaxClonePairs": cfg.MaxClonePairs, "BatchSizeThreshold": cfg.BatchSizeThreshold, "BatchSizeLarge": cfg.BatchSizeLarge,
			"BatchSizeSmall": cfg.BatchSizeSmall, "LargeProjectSize": cfg.LargeProjectSize, "MinLines": cfg.MinLines, "MinNodes": cfg.MinNodes,
			"T1": bits(cfg.Type1Threshold), "T2": bits(cfg.Type2Threshold), "T3": bits(cfg.Type3Threshold), "T4": bits(cfg.Type4Threshold),
			"Sim": bits(cfg.SimilarityThreshold), "MaxDist": bits(cfg.MaxEditDistance), "MinSim": bits(req.MinSimilarity), "MaxSim": bits(req.MaxSimilarity),
			"LSHBands": cfg.LSHBands, "LSHRows": cfg.LSHRows, "LSHHashes": cfg.LSHMinHashCount, "LSHThr": bits(cfg.LSHSimilarityThreshold),
			"DFA": cfg.EnableDFAAnalysis, "Types": req.CloneTypes}
		if in.Raw {
			type rawOut struct {
				I, J      int
				OK        bool
				Sim, Dist string
			}
			rs := []rawOut{}
			for i := range frags {
				for j := range frags {
					if i == j {
						continue
					}
					r := det.VerifRaw(frags[i], frags[j])
					rs = append(rs, rawOut{i, j, r.OK, bits(r.Sim), bits(r.Dist)})
				}
			}
			out["raw"] = rs
		}
		skip := map[string]bool{}
		for _, k := range in.Skip {
			skip[k] = true
		}
		if !skip["std"] {
			out["std"] = conv(det.VerifStandard())
		}
		if !skip["auto"] {
			out["auto"] = conv(det.VerifAuto())
		}
		bo := map[string][]pairOut{}
		for _, bs := range in.BatchSizes {
			mp := cfg.MaxClonePairs
			bo[fmt.Sprint(bs)] = conv(det.VerifBatched(mp, bs))
		}
		out["batch"] = bo
		// the service's own sequence: decide LSH, detect, convert, filter
		report := func(lshEnabled string) map[string]any {
			d := newDetector()
			r := *req
			r.LSHEnabled = lshEnabled
			use := domain.ShouldUseLSH(r.LSHEnabled, len(frags), r.LSHAutoThreshold)
			d.SetUseLSH(use)
			pairs, groups := d.DetectClonesWithLSH(ctx, frags)
			// DetectClonesWithLSH re-prepares the same fragment objects, so `index` stays valid
			dom := service.VerifConvertAndFilterPairs(pairs, &r)
			type domOut struct {
				P1, P2       string
				S1, E1       int
				S2, E2       int
				Sim, Dist    float64
				SimB, DistB  string
				Type         int
			}
			do := []domOut{}
			for _, p := range dom {
				do = append(do, domOut{p.Clone1.Location.FilePath, p.Clone2.Location.FilePath, p.Clone1.Location.StartLine, p.Clone1.Location.EndLine,
					p.Clone2.Location.StartLine, p.Clone2.Location.EndLine, p.Similarity, p.Distance, bits(p.Similarity), bits(p.Distance), int(p.Type)})
			}
			return map[string]any{"use_lsh": use, "detector": conv(pairs), "reported": do, "groups": len(groups)}
		}
		out["report_cfg"] = report(req.LSHEnabled)
		if !skip["report_off"] {
			if in.ShareReport && !domain.ShouldUseLSH(req.LSHEnabled, len(frags), req.LSHAutoThreshold) {
				out["report_off"] = out["report_cfg"]
			} else {
				out["report_off"] = report("false")
			}
		}
		if in.LSH {
			out["report_on"] = report("true")
			det.VerifPrepare(frags)
			feats, sigs, cands := det.VerifLSHStage()
			hf := [][]string{}
			for _, fs := range feats {
				row := []string{}
				for _, f := range fs {
					row = append(row, fmt.Sprintf("%x", []byte(f)))
				}
				hf = append(hf, row)
			}
			ss := [][]string{}
			for _, s := range sigs {
				row := []string{}
				for _, v := range s {
					row = append(row, fmt.Sprint(v))
				}
				ss = append(ss, row)
			}
			n := cfg.LSHMinHashCount
			a, b, ok := analyzer.VerifHashFamily(n)
			as, bs := []string{}, []string{}
			for i := range a {
				as = append(as, fmt.Sprint(a[i]))
				bs = append(bs, fmt.Sprint(b[i]))
			}
			out["lsh"] = map[string]any{"feats": hf, "sigs": ss, "cands": cands, "a": as, "b": bs, "family_ok": ok}
		}
		return out, nil
	}
}
