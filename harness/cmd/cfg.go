//go:build verif

package main

import (
	"context"
	"encoding/json"
	"sort"

	"github.com/ludo-technologies/pyscn/internal/analyzer"
	"github.com/ludo-technologies/pyscn/internal/parser"
)

type cfgIn struct {
	Src   string
	Path  string
	Graph bool // also dump the block graph (diagnostics)
	AST   bool // also dump the statement skeleton of the parser's AST
}

type cfgFinding struct {
	Start    int    `json:"start"`
	End      int    `json:"end"`
	Severity string `json:"severity"`
	Reason   string `json:"reason"`
	Block    string `json:"block"`
}

type cfgBlock struct {
	ID    string      `json:"id"`
	Label string      `json:"label"`
	Lines [][2]int    `json:"lines"` // (start,end) of each statement
	Types []string    `json:"types"`
	Succ  [][2]string `json:"succ"` // (target id, edge type)
}

type cfgFunc struct {
	Name       string       `json:"name"`
	StartLine  int          `json:"start"`
	EndLine    int          `json:"end"`
	Complexity int          `json:"complexity"`
	Risk       string       `json:"risk"`
	Findings   []cfgFinding `json:"findings"`
	LiveLines  []int        `json:"live_lines"` // start lines of statements held by reachable blocks
	DeadLines  []int        `json:"dead_lines"` // start lines of statements held by unreachable blocks
	Blocks     []cfgBlock   `json:"blocks,omitempty"`
}

func astSkeleton(n *parser.Node) any {
	if n == nil {
		return nil
	}
	m := map[string]any{"t": string(n.Type), "l": [2]int{n.Location.StartLine, n.Location.EndLine}}
	if n.Name != "" {
		m["name"] = n.Name
	}
	// statement-level comprehension (what processStatement looks at): Value is a comprehension node
	switch n.Type {
	case parser.NodeAssign, parser.NodeAugAssign, parser.NodeAnnAssign, parser.NodeReturn, parser.NodeExpr:
		v, _ := n.Value.(*parser.Node)
		// redundant parentheses and chained assignment are looked through (statementValue in cfg_builder.go, since the repair of F53)
		for v != nil {
			if v.Type == parser.NodeType("parenthesized_expression") {
				var inner *parser.Node
				for _, c := range v.Children {
					if c != nil && c.Type != parser.NodeType("(") && c.Type != parser.NodeType(")") {
						inner = c
						break
					}
				}
				v = inner
			} else if v.Type == parser.NodeAssign {
				v, _ = v.Value.(*parser.Node)
			} else {
				break
			}
		}
		if v != nil {
			if v.Type == parser.NodeListComp || v.Type == parser.NodeDictComp || v.Type == parser.NodeSetComp || v.Type == parser.NodeGeneratorExp {
				tests := []bool{}
				for _, c := range v.Children {
					if c.Type == parser.NodeComprehension {
						tests = append(tests, c.Test != nil)
					}
				}
				m["comp"] = tests
			}
		}
	}
	list := func(xs []*parser.Node) []any {
		out := []any{}
		for _, x := range xs {
			out = append(out, astSkeleton(x))
		}
		return out
	}
	if len(n.Body) > 0 {
		m["body"] = list(n.Body)
	}
	if len(n.Orelse) > 0 {
		m["orelse"] = list(n.Orelse)
	}
	if len(n.Handlers) > 0 {
		m["handlers"] = list(n.Handlers)
	}
	if len(n.Finalbody) > 0 {
		m["finalbody"] = list(n.Finalbody)
	}
	return m
}

func init() {
	handlers["cfg"] = func(raw json.RawMessage) (any, error) {
		var in cfgIn
		if err := json.Unmarshal(raw, &in); err != nil {
			return nil, err
		}
		p := parser.New()
		res, err := p.Parse(context.Background(), []byte(in.Src))
		if err != nil {
			return map[string]any{"parse_error": err.Error()}, nil
		}
		cfgs, err := analyzer.NewCFGBuilder().BuildAll(res.AST)
		if err != nil {
			return map[string]any{"cfg_error": err.Error()}, nil
		}
		names := make([]string, 0, len(cfgs))
		for n := range cfgs {
			names = append(names, n)
		}
		sort.Strings(names)
		var funcs []cfgFunc
		for _, name := range names {
			c := cfgs[name]
			f := cfgFunc{Name: name, Findings: []cfgFinding{}, LiveLines: []int{}, DeadLines: []int{}}
			if c.FunctionNode != nil {
				f.StartLine, f.EndLine = c.FunctionNode.Location.StartLine, c.FunctionNode.Location.EndLine
			}
			cr := analyzer.CalculateComplexity(c)
			f.Complexity, f.Risk = cr.Complexity, cr.RiskLevel
			dr := analyzer.DetectInFunctionWithFilePath(c, in.Path)
			if dr != nil {
				for _, x := range dr.Findings {
					f.Findings = append(f.Findings, cfgFinding{x.StartLine, x.EndLine, string(x.Severity), string(x.Reason), x.BlockID})
				}
			}
			rr := analyzer.NewReachabilityAnalyzer(c).AnalyzeReachability()
			ids := make([]string, 0, len(c.Blocks))
			for id := range c.Blocks {
				ids = append(ids, id)
			}
			sort.Strings(ids)
			for _, id := range ids {
				b := c.Blocks[id]
				_, live := rr.ReachableBlocks[id]
				for _, s := range b.Statements {
					if live {
						f.LiveLines = append(f.LiveLines, s.Location.StartLine)
					} else {
						f.DeadLines = append(f.DeadLines, s.Location.StartLine)
					}
				}
				if in.Graph {
					cb := cfgBlock{ID: id, Label: b.Label, Lines: [][2]int{}, Types: []string{}, Succ: [][2]string{}}
					for _, s := range b.Statements {
						cb.Lines = append(cb.Lines, [2]int{s.Location.StartLine, s.Location.EndLine})
						cb.Types = append(cb.Types, string(s.Type))
					}
					for _, e := range b.Successors {
						cb.Succ = append(cb.Succ, [2]string{e.To.ID, e.Type.String()})
					}
					f.Blocks = append(f.Blocks, cb)
				}
			}
			sort.Ints(f.LiveLines)
			sort.Ints(f.DeadLines)
			funcs = append(funcs, f)
		}
		out := map[string]any{"funcs": funcs}
		if in.AST {
			out["ast"] = astSkeleton(res.AST)
		}
		return out, nil
	}
}
