//go:build verif

package main

import (
	"context"
	"encoding/json"
	"sort"

	"github.com/ludo-technologies/pyscn/internal/analyzer"
	"github.com/ludo-technologies/pyscn/internal/parser"
)

type lcomIn struct {
	Src         string
	Low, Medium int
}

func setToSorted(m map[string]bool) []string {
	out := []string{}
	for k := range m {
		out = append(out, k)
	}
	sort.Strings(out)
	return out
}

func init() {
	handlers["lcom"] = func(raw json.RawMessage) (any, error) {
		var in lcomIn
		if err := json.Unmarshal(raw, &in); err != nil {
			return nil, err
		}
		res, err := parser.New().Parse(context.Background(), []byte(in.Src))
		if err != nil {
			return map[string]any{"parse_error": err.Error()}, nil
		}
		opts := analyzer.DefaultLCOMOptions()
		if in.Low > 0 {
			opts.LowThreshold, opts.MediumThreshold = in.Low, in.Medium
		}
		results, err := analyzer.CalculateLCOMWithConfig(res.AST, "m.py", opts)
		if err != nil {
			return map[string]any{"error": err.Error()}, nil
		}
		byLine := map[int]*analyzer.LCOMResult{}
		for _, r := range results {
			byLine[r.StartLine] = r
		}
		var out []map[string]any
		for _, cn := range analyzer.VerifLCOMClasses(res.AST) {
			methods, excluded, calls := analyzer.VerifLCOMCollect(cn)
			ms := map[string]any{}
			for name, vars := range methods {
				ms[name] = map[string]any{"attrs": setToSorted(vars), "calls": setToSorted(calls[name])}
			}
			row := map[string]any{"name": cn.Name, "start": cn.Location.StartLine, "end": cn.Location.EndLine, "methods": ms, "excluded": excluded}
			if r := byLine[cn.Location.StartLine]; r != nil {
				row["lcom4"], row["groups"], row["total"], row["excluded_reported"], row["risk"] = r.LCOM4, r.MethodGroups, r.TotalMethods, r.ExcludedMethods, r.RiskLevel
			}
			out = append(out, row)
		}
		return map[string]any{"classes": out}, nil
	}
}
