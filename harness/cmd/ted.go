//go:build verif

package main

import (
	"encoding/json"

	"github.com/ludo-technologies/pyscn/internal/analyzer"
)

type tedNode struct {
	L string // label
	A int    // arity
}

type tedIn struct {
	T1, T2 []tedNode // preorder
	Labels []string  // distinct labels whose costs are to be dumped
}

func buildTree(nodes []tedNode, pos *int, id *int) *analyzer.TreeNode {
	n := nodes[*pos]
	*pos++
	t := analyzer.NewTreeNode(*id, n.L)
	*id++
	for i := 0; i < n.A; i++ {
		t.AddChild(buildTree(nodes, pos, id))
	}
	return t
}

func costModels() map[string]analyzer.CostModel {
	return map[string]analyzer.CostModel{
		"default":  analyzer.NewDefaultCostModel(),
		"python":   analyzer.NewPythonCostModel(),
		"weighted": analyzer.NewWeightedCostModel(1.0, 1.0, 0.8, analyzer.NewPythonCostModel()),
		// the configuration the clone detector really uses (boilerplate-aware)
		"python_bp": analyzer.NewPythonCostModelWithBoilerplateConfig(false, false, true, 0.1),
	}
}

func init() {
	handlers["ted"] = func(raw json.RawMessage) (any, error) {
		var in tedIn
		if err := json.Unmarshal(raw, &in); err != nil {
			return nil, err
		}
		out := map[string]any{}
		for name, cm := range costModels() {
			p, id := 0, 0
			t1 := buildTree(in.T1, &p, &id)
			p = 0
			t2 := buildTree(in.T2, &p, &id)
			a := analyzer.NewAPTEDAnalyzer(cm)
			d12 := a.ComputeDistance(t1, t2)
			d21 := a.ComputeDistance(t2, t1)
			d11 := a.ComputeDistance(t1, t1)
			s12 := a.ComputeSimilarity(t1, t2)
			s11 := a.ComputeSimilarity(t1, t1)
			del, ins := []float64{}, []float64{}
			ren := [][]float64{}
			for _, l := range in.Labels {
				n := analyzer.NewTreeNode(0, l)
				del = append(del, cm.Delete(n))
				ins = append(ins, cm.Insert(n))
				row := []float64{}
				for _, m := range in.Labels {
					row = append(row, cm.Rename(n, analyzer.NewTreeNode(1, m)))
				}
				ren = append(ren, row)
			}
			out[name] = map[string]any{"d12": d12, "d21": d21, "d11": d11, "s12": s12, "s11": s11,
				"n1": t1.Size(), "n2": t2.Size(), "del": del, "ins": ins, "ren": ren}
		}
		return out, nil
	}
}
