//go:build verif

package main

import (
	"encoding/json"
	"fmt"
	"sort"

	"github.com/ludo-technologies/pyscn/internal/analyzer"
)

type tedNode struct {
	L string // label
	A int    // arity
}

type tedIn struct {
	T1, T2 []tedNode // preorder
	Labels []string  // distinct labels whose costs are to be dumped
}

func buildTree(nodes []tedNode, pos *int, id *int) *analyzer.TreeNode {
	n := nodes[*pos]
	*pos++
	t := analyzer.NewTreeNode(*id, n.L)
	*id++
	for i := 0; i < n.A; i++ {
		t.AddChild(buildTree(nodes, pos, id))
	}
	return t
}

func cloneTree(t *analyzer.TreeNode, id *int) *analyzer.TreeNode {
	n := analyzer.NewTreeNode(*id, t.Label)
	*id++
	for _, c := range t.Children {
		n.AddChild(cloneTree(c, id))
	}
	return n
}

func costModels() map[string]analyzer.CostModel {
	return map[string]analyzer.CostModel{
		"default":  analyzer.NewDefaultCostModel(),
		"python":   analyzer.NewPythonCostModel(),
		"weighted": analyzer.NewWeightedCostModel(1.0, 1.0, 0.8, analyzer.NewPythonCostModel()),
		// the configuration the clone detector really uses (boilerplate-aware)
		"python_bp": analyzer.NewPythonCostModelWithBoilerplateConfig(false, false, true, 0.1),
		// asymmetric weights (insert != delete): d(T1,T2) and d(T2,T1) are different minima, so the argument order matters
		"weighted_asym":  analyzer.NewWeightedCostModel(2.0, 1.5, 0.5, analyzer.NewDefaultCostModel()),
		"weighted_asym2": analyzer.NewWeightedCostModel(0.5, 3.0, 1.0, analyzer.NewPythonCostModel()),
	}
}

func init() {
	handlers["ted"] = func(raw json.RawMessage) (any, error) {
		var in tedIn
		if err := json.Unmarshal(raw, &in); err != nil {
			return nil, err
		}
		out := map[string]any{}
		// the tree preparation of apted_tree.go on its own: left-most leaf of every post-order position and the key roots (sorted, as apted.go sorts them)
		prep := func(nodes []tedNode) map[string]any {
			p, id := 0, 0
			t := buildTree(nodes, &p, &id)
			kr := analyzer.PrepareTreeForAPTED(t)
			sort.Ints(kr)
			all := analyzer.GetSubtreeNodes(t)
			lml := make([]int, len(all))
			for _, n := range all {
				if n.PostOrderID >= 0 && n.PostOrderID < len(lml) {
					lml[n.PostOrderID] = n.LeftMostLeaf
				}
			}
			return map[string]any{"lml": lml, "keyroots": kr}
		}
		out["prep1"], out["prep2"] = prep(in.T1), prep(in.T2)
		for name, cm := range costModels() {
			p, id := 0, 0
			t1 := buildTree(in.T1, &p, &id)
			p = 0
			t2 := buildTree(in.T2, &p, &id)
			a := analyzer.NewAPTEDAnalyzer(cm)
			d12 := a.ComputeDistance(t1, t2)
			d21 := a.ComputeDistance(t2, t1)
			d11 := a.ComputeDistance(t1, t1)
			s12 := a.ComputeSimilarity(t1, t2)
			s11 := a.ComputeSimilarity(t1, t1)
			// a SESSION on the same objects: compare an inner subtree of T1 on its own (against a fresh tree), then the whole pair again,
			// then T1 against a fresh copy of itself; every call must give what a fresh analysis gives (no state may survive a call)
			dAgain, dCopy, dSub := d12, 0.0, -1.0
			attachedBad := ""
			{
				var sub *analyzer.TreeNode
				var find func(n *analyzer.TreeNode, root bool)
				find = func(n *analyzer.TreeNode, root bool) {
					for _, c := range n.Children {
						if len(c.Children) > 0 {
							sub = c // the LAST non-leaf proper subtree in preorder
						}
						find(c, false)
					}
				}
				find(t1, true)
				if sub != nil {
					p = 0
					other := buildTree(in.T2, &p, &id)
					dSub = a.ComputeDistance(sub, other)
				}
				// a tree that is PART of a larger tree (attached: it has a parent and siblings) must compare like a detached copy of itself:
				// the first child and the last child of the root, both argument orders
				if len(t1.Children) > 0 {
					for _, c := range []*analyzer.TreeNode{t1.Children[0], t1.Children[len(t1.Children)-1]} {
						p = 0
						o1 := buildTree(in.T2, &p, &id)
						p = 0
						o2 := buildTree(in.T2, &p, &id)
						det := cloneTree(c, &id)
						da, dd := a.ComputeDistance(c, o1), a.ComputeDistance(det, o2)
						ra, rd := a.ComputeDistance(o1, c), a.ComputeDistance(o2, det)
						if da != dd || ra != rd {
							attachedBad = fmt.Sprintf("attached %v / %v, detached copy %v / %v", da, ra, dd, rd)
						}
					}
				}
				dAgain = a.ComputeDistance(t1, t2)
				p = 0
				cp := buildTree(in.T1, &p, &id)
				dCopy = a.ComputeDistance(t1, cp)
			}
			del, ins := []float64{}, []float64{}
			ren := [][]float64{}
			for _, l := range in.Labels {
				n := analyzer.NewTreeNode(0, l)
				del = append(del, cm.Delete(n))
				ins = append(ins, cm.Insert(n))
				row := []float64{}
				for _, m := range in.Labels {
					row = append(row, cm.Rename(n, analyzer.NewTreeNode(1, m)))
				}
				ren = append(ren, row)
			}
			out[name] = map[string]any{"attached_vs_detached": attachedBad, "d12_again": dAgain, "d_copy": dCopy, "d_sub": dSub, "d12": d12, "d21": d21, "d11": d11, "s12": s12, "s11": s11,
				"n1": t1.Size(), "n2": t2.Size(), "del": del, "ins": ins, "ren": ren}
		}
		return out, nil
	}
}
