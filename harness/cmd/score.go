//go:build verif

package main

import (
	"encoding/json"
	"math"

	"github.com/ludo-technologies/pyscn/domain"
)

// floats travel as IEEE-754 bit patterns (uint64 as decimal string is avoided: JSON numbers
// above 2^53 are unsafe in some readers, so they are strings).
type scoreIn struct {
	TotalFiles, DepsTotalModules, DepsModulesInCycles, DepsMaxDepth int
	DepsEnabled, ArchEnabled                                        bool
	MSD, Arch, AvgCx, Dup                                           string // hex bits
	DeadCodeCount, Crit, Warn, Info                                 int
	CBOClasses, HighCBO, MedCBO                                     int
	LCOMClasses, HighLCOM, MedLCOM                                  int
	HighComplexityCount                                             int
}

func bitsToF(s string) float64 {
	var u uint64
	for _, c := range s {
		u <<= 4
		switch {
		case c >= '0' && c <= '9':
			u |= uint64(c - '0')
		case c >= 'a' && c <= 'f':
			u |= uint64(c-'a') + 10
		}
	}
	return math.Float64frombits(u)
}

func fToBits(f float64) string {
	const hex = "0123456789abcdef"
	u := math.Float64bits(f)
	b := make([]byte, 16)
	for i := 15; i >= 0; i-- {
		b[i] = hex[u&15]
		u >>= 4
	}
	return string(b)
}

func init() {
	handlers["score"] = func(raw json.RawMessage) (any, error) {
		var in scoreIn
		if err := json.Unmarshal(raw, &in); err != nil {
			return nil, err
		}
		s := domain.AnalyzeSummary{
			TotalFiles: in.TotalFiles, DepsEnabled: in.DepsEnabled, ArchEnabled: in.ArchEnabled,
			DepsTotalModules: in.DepsTotalModules, DepsModulesInCycles: in.DepsModulesInCycles, DepsMaxDepth: in.DepsMaxDepth,
			DepsMainSequenceDeviation: bitsToF(in.MSD), ArchCompliance: bitsToF(in.Arch),
			AverageComplexity: bitsToF(in.AvgCx), CodeDuplication: bitsToF(in.Dup),
			DeadCodeCount: in.DeadCodeCount, CriticalDeadCode: in.Crit, WarningDeadCode: in.Warn, InfoDeadCode: in.Info,
			CBOClasses: in.CBOClasses, HighCouplingClasses: in.HighCBO, MediumCouplingClasses: in.MedCBO,
			LCOMClasses: in.LCOMClasses, HighLCOMClasses: in.HighLCOM, MediumLCOMClasses: in.MedLCOM,
			HighComplexityCount: in.HighComplexityCount,
		}
		fb := s.CalculateFallbackScore()
		err := s.CalculateHealthScore()
		return map[string]any{
			"err": err != nil, "health": s.HealthScore, "grade": s.Grade,
			"scores":   []int{s.ComplexityScore, s.DeadCodeScore, s.DuplicationScore, s.CouplingScore, s.CohesionScore, s.DependencyScore, s.ArchitectureScore},
			"fallback": fb, "gradefn": domain.GetGradeFromScore(s.HealthScore),
			// values of the external functions math.Log10 / math.Log2 at the arguments this case uses
			"log10": fToBits(math.Log10(float64(in.TotalFiles) / 10.0)),
			"log2":  fToBits(math.Log2(float64(in.DepsTotalModules) + 1)),
		}, nil
	}
}
