//go:build verif

package main

import (
	"encoding/json"
	"fmt"
	"os"

	"gopkg.in/yaml.v3"
)

// yaml2json: parse a YAML file with the library pyscn writes it with and hand it back as JSON (so that the
// comparison JSON report vs YAML report needs no YAML parser on the Python side).

func normYAML(v any) any {
	switch x := v.(type) {
	case map[string]any:
		m := map[string]any{}
		for k, e := range x {
			m[k] = normYAML(e)
		}
		return m
	case map[any]any:
		m := map[string]any{}
		for k, e := range x {
			m[fmt.Sprint(k)] = normYAML(e)
		}
		return m
	case []any:
		for i := range x {
			x[i] = normYAML(x[i])
		}
		return x
	default:
		return v
	}
}

func init() {
	handlers["yaml2json"] = func(raw json.RawMessage) (any, error) {
		var in struct{ Path string }
		if err := json.Unmarshal(raw, &in); err != nil {
			return nil, err
		}
		b, err := os.ReadFile(in.Path)
		if err != nil {
			return nil, err
		}
		var v any
		if err := yaml.Unmarshal(b, &v); err != nil {
			return map[string]any{"yaml_error": err.Error()}, nil
		}
		return map[string]any{"doc": normYAML(v)}, nil
	}
}
