//go:build verif

package main

import (
	"encoding/json"
	"io"
	"log"
	"math"

	"github.com/ludo-technologies/pyscn/app"
	"github.com/ludo-technologies/pyscn/domain"
)

type sumIn struct {
	Cx    *struct{ Files, N, High int; Avg string }
	Dead  *struct{ Total, Crit, Warn, Info int }
	Clone *struct{ Total, Pairs, Groups, Lines int }
	CBO   *struct{ Classes, High, Med int; Avg string }
	LCOM  *struct{ Classes, High, Med int; Avg string }
	Sys   *struct {
		HasDeps              bool
		Modules, Depth       int
		HasCirc              bool
		CycMods              int
		HasCoupling          bool
		MSD                  string
		HasArch              bool
		Compliance           string
	}
	DepsEnabled, ArchEnabled bool
}

func init() {
	log.SetOutput(io.Discard)
	handlers["summary"] = func(raw json.RawMessage) (any, error) {
		var in sumIn
		if err := json.Unmarshal(raw, &in); err != nil {
			return nil, err
		}
		resp := &domain.AnalyzeResponse{}
		resp.Summary.DepsEnabled, resp.Summary.ArchEnabled = in.DepsEnabled, in.ArchEnabled
		if in.Cx != nil {
			resp.Summary.ComplexityEnabled = true
			resp.Complexity = &domain.ComplexityResponse{Functions: make([]domain.FunctionComplexity, in.Cx.N)}
			resp.Complexity.Summary.FilesAnalyzed = in.Cx.Files
			resp.Complexity.Summary.AverageComplexity = bitsToF(in.Cx.Avg)
			resp.Complexity.Summary.HighRiskFunctions = in.Cx.High
		}
		if in.Dead != nil {
			resp.Summary.DeadCodeEnabled = true
			resp.DeadCode = &domain.DeadCodeResponse{}
			resp.DeadCode.Summary.TotalFindings, resp.DeadCode.Summary.CriticalFindings = in.Dead.Total, in.Dead.Crit
			resp.DeadCode.Summary.WarningFindings, resp.DeadCode.Summary.InfoFindings = in.Dead.Warn, in.Dead.Info
		}
		if in.Clone != nil {
			resp.Summary.CloneEnabled = true
			resp.Clone = &domain.CloneResponse{Statistics: &domain.CloneStatistics{TotalClones: in.Clone.Total, TotalClonePairs: in.Clone.Pairs,
				TotalCloneGroups: in.Clone.Groups, LinesAnalyzed: in.Clone.Lines}}
		}
		if in.CBO != nil {
			resp.Summary.CBOEnabled = true
			resp.CBO = &domain.CBOResponse{}
			resp.CBO.Summary.TotalClasses, resp.CBO.Summary.HighRiskClasses, resp.CBO.Summary.MediumRiskClasses = in.CBO.Classes, in.CBO.High, in.CBO.Med
			resp.CBO.Summary.AverageCBO = bitsToF(in.CBO.Avg)
		}
		if in.LCOM != nil {
			resp.Summary.LCOMEnabled = true
			resp.LCOM = &domain.LCOMResponse{}
			resp.LCOM.Summary.TotalClasses, resp.LCOM.Summary.HighRiskClasses, resp.LCOM.Summary.MediumRiskClasses = in.LCOM.Classes, in.LCOM.High, in.LCOM.Med
			resp.LCOM.Summary.AverageLCOM = bitsToF(in.LCOM.Avg)
		}
		if in.Sys != nil {
			resp.System = &domain.SystemAnalysisResponse{}
			if in.Sys.HasDeps {
				da := &domain.DependencyAnalysisResult{TotalModules: in.Sys.Modules, MaxDepth: in.Sys.Depth}
				if in.Sys.HasCirc {
					da.CircularDependencies = &domain.CircularDependencyAnalysis{TotalModulesInCycles: in.Sys.CycMods}
				}
				if in.Sys.HasCoupling {
					da.CouplingAnalysis = &domain.CouplingAnalysis{MainSequenceDeviation: bitsToF(in.Sys.MSD)}
				}
				resp.System.DependencyAnalysis = da
			}
			if in.Sys.HasArch {
				resp.System.ArchitectureAnalysis = &domain.ArchitectureAnalysisResult{ComplianceScore: bitsToF(in.Sys.Compliance)}
			}
		}
		app.VerifCalculateSummary(resp)
		s := resp.Summary
		return map[string]any{
			"ints": []int{s.TotalFiles, s.AnalyzedFiles, s.TotalFunctions, s.HighComplexityCount, s.DeadCodeCount, s.CriticalDeadCode, s.WarningDeadCode,
				s.InfoDeadCode, s.TotalClones, s.ClonePairs, s.CloneGroups, s.CBOClasses, s.HighCouplingClasses, s.MediumCouplingClasses,
				s.LCOMClasses, s.HighLCOMClasses, s.MediumLCOMClasses, s.DepsTotalModules, s.DepsModulesInCycles, s.DepsMaxDepth},
			"floats": []string{fToBits(s.AverageComplexity), fToBits(s.CodeDuplication), fToBits(s.AverageCoupling), fToBits(s.AverageLCOM),
				fToBits(s.DepsMainSequenceDeviation), fToBits(s.ArchCompliance)},
			"health": s.HealthScore, "grade": s.Grade,
			"scores": []int{s.ComplexityScore, s.DeadCodeScore, s.DuplicationScore, s.CouplingScore, s.CohesionScore, s.DependencyScore, s.ArchitectureScore},
			"log10":  fToBits(math.Log10(float64(s.TotalFiles) / 10.0)),
			"log2":   fToBits(math.Log2(float64(s.DepsTotalModules) + 1)),
		}, nil
	}
}
