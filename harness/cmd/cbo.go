//go:build verif

package main

import (
	"context"
	"encoding/json"
	"sort"

	"github.com/ludo-technologies/pyscn/internal/analyzer"
	"github.com/ludo-technologies/pyscn/internal/parser"
)

type cboIn struct {
	Src             string
	IncludeBuiltins bool
	Low, Medium     int
}

func init() {
	handlers["cbo"] = func(raw json.RawMessage) (any, error) {
		var in cboIn
		if err := json.Unmarshal(raw, &in); err != nil {
			return nil, err
		}
		res, err := parser.New().Parse(context.Background(), []byte(in.Src))
		if err != nil {
			return map[string]any{"parse_error": err.Error()}, nil
		}
		opts := analyzer.DefaultCBOOptions()
		opts.IncludeBuiltins = in.IncludeBuiltins
		if in.Low > 0 {
			opts.LowThreshold, opts.MediumThreshold = in.Low, in.Medium
		}
		results, err := analyzer.CalculateCBOWithConfig(res.AST, "m.py", opts)
		if err != nil {
			return map[string]any{"error": err.Error()}, nil
		}
		out := []map[string]any{}
		for _, r := range results {
			deps := append([]string{}, r.DependentClasses...)
			sort.Strings(deps)
			out = append(out, map[string]any{"name": r.ClassName, "count": r.CouplingCount, "deps": deps, "risk": r.RiskLevel, "start": r.StartLine})
		}
		sort.Slice(out, func(i, j int) bool { return out[i]["start"].(int) < out[j]["start"].(int) })
		return map[string]any{"classes": out}, nil
	}
}
