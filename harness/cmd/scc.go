//go:build verif

package main

import (
	"encoding/json"
	"fmt"
	"sort"

	"github.com/ludo-technologies/pyscn/internal/analyzer"
)

type sccIn struct {
	N     int
	Edges [][2]int
	Reps  int
}

type sccRun struct {
	Cycles     [][]int  `json:"cycles"` // canonical: each sorted, list sorted by first member
	Severities []string `json:"severities"`
	Sizes      []int    `json:"sizes"`
	Total      int      `json:"total"`
	Modules    int      `json:"modules"`
	BySeverity [4]int   `json:"by_severity"` // low, medium, high, critical
	Has        bool     `json:"has"`
	SortedOK   bool     `json:"members_sorted"`
	Raw        [][]int  `json:"raw"`      // Tarjan's components in EMISSION order, members as emitted
	Indices    []int    `json:"indices"`  // index assigned to each module by the depth-first search
	LowLinks   []int    `json:"lowlinks"` // final low-link of each module
}

func init() {
	handlers["scc"] = func(raw json.RawMessage) (any, error) {
		var in sccIn
		if err := json.Unmarshal(raw, &in); err != nil {
			return nil, err
		}
		if in.Reps <= 0 {
			in.Reps = 1
		}
		name := func(i int) string { return fmt.Sprintf("m%04d", i) }
		idx := map[string]int{}
		for i := 0; i < in.N; i++ {
			idx[name(i)] = i
		}
		var runs []sccRun
		for r := 0; r < in.Reps; r++ {
			g := analyzer.NewDependencyGraph("/proj")
			for i := 0; i < in.N; i++ {
				g.AddModule(name(i), "/proj/"+name(i)+".py")
			}
			for _, e := range in.Edges {
				g.AddDependency(name(e[0]), name(e[1]), analyzer.DependencyEdgeImport, nil)
			}
			res := analyzer.DetectCircularDependencies(g)
			run := sccRun{Total: res.TotalCycles, Modules: res.TotalModulesInCycles, Has: res.HasCircularDependencies, SortedOK: true,
				BySeverity: [4]int{res.LowSeverityCycles, res.MediumSeverityCycles, res.HighSeverityCycles, res.CriticalSeverityCycles}}
			type cyc struct {
				m   []int
				sev string
				sz  int
			}
			var cs []cyc
			for _, c := range res.CircularDependencies {
				var m []int
				for _, s := range c.Modules {
					m = append(m, idx[s])
				}
				if !sort.IntsAreSorted(m) {
					run.SortedOK = false
					sort.Ints(m)
				}
				cs = append(cs, cyc{m, string(c.Severity), c.Size})
			}
			sort.Slice(cs, func(i, j int) bool { return cs[i].m[0] < cs[j].m[0] })
			run.Cycles, run.Severities, run.Sizes = [][]int{}, []string{}, []int{}
			for _, c := range cs {
				run.Cycles = append(run.Cycles, c.m)
				run.Severities = append(run.Severities, c.sev)
				run.Sizes = append(run.Sizes, c.sz)
			}
			rawC, ind, low := analyzer.VerifTarjanTrace(g)
			run.Raw, run.Indices, run.LowLinks = [][]int{}, make([]int, in.N), make([]int, in.N)
			for _, c := range rawC {
				m := []int{}
				for _, s := range c {
					m = append(m, idx[s])
				}
				run.Raw = append(run.Raw, m)
			}
			for i := 0; i < in.N; i++ {
				run.Indices[i], run.LowLinks[i] = ind[name(i)], low[name(i)]
			}
			runs = append(runs, run)
		}
		return map[string]any{"runs": runs}, nil
	}
}
