//go:build verif

package main

import (
	"encoding/json"
	"os"

	"github.com/bmatcuk/doublestar/v4"
	"github.com/ludo-technologies/pyscn/service"
)

// files: the real FileReaderImpl.CollectPythonFiles from a given working directory.
// glob: the real doublestar.Match on (pattern, path) pairs (validates the Lean sub-model of the library).

type filesIn struct {
	Cwd       string
	Paths     []string
	Recursive bool
	Include   []string
	Exclude   []string
}

type globIn struct {
	Pairs [][2]string
}

func init() {
	handlers["files"] = func(raw json.RawMessage) (any, error) {
		var in filesIn
		if err := json.Unmarshal(raw, &in); err != nil {
			return nil, err
		}
		old, _ := os.Getwd()
		if in.Cwd != "" {
			if err := os.Chdir(in.Cwd); err != nil {
				return nil, err
			}
			defer func() { _ = os.Chdir(old) }()
		}
		files, err := service.NewFileReader().CollectPythonFiles(in.Paths, in.Recursive, in.Include, in.Exclude)
		if err != nil {
			return map[string]any{"err": err.Error()}, nil
		}
		if files == nil {
			files = []string{}
		}
		return map[string]any{"files": files}, nil
	}
	handlers["glob"] = func(raw json.RawMessage) (any, error) {
		var in globIn
		if err := json.Unmarshal(raw, &in); err != nil {
			return nil, err
		}
		out := make([]int, len(in.Pairs))
		for i, p := range in.Pairs {
			m, err := doublestar.Match(p[0], p[1])
			switch {
			case err != nil:
				out[i] = 2
			case m:
				out[i] = 1
			}
		}
		return map[string]any{"m": out}, nil
	}
}
