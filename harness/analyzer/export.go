//go:build verif

package analyzer

import "github.com/ludo-technologies/pyscn/internal/parser"

// Thin exported wrappers around unexported analyzer functions, for the verification harness only.

// VerifLCOMCollect: per-method self-attribute sets, number of excluded methods, per-method self-call sets.
func VerifLCOMCollect(classNode *parser.Node) (map[string]map[string]bool, int, map[string]map[string]bool) {
	return NewLCOMAnalyzer(nil).collectMethods(classNode)
}

// VerifLCOMClasses: the class nodes the LCOM analyzer collects.
func VerifLCOMClasses(ast *parser.Node) []*parser.Node {
	return NewLCOMAnalyzer(nil).collectClasses(ast)
}
