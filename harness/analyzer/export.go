//go:build verif

package analyzer

import (
	"context"
	"fmt"
	"math/rand"
	"sort"
	"strings"

	"github.com/ludo-technologies/pyscn/internal/parser"
)

// Thin exported wrappers around unexported analyzer functions, for the verification harness only.

// VerifLCOMCollect: per-method self-attribute sets, number of excluded methods, per-method self-call sets.
func VerifLCOMCollect(classNode *parser.Node) (map[string]map[string]bool, int, map[string]map[string]bool) {
	return NewLCOMAnalyzer(nil).collectMethods(classNode)
}

// VerifLCOMClasses: the class nodes the LCOM analyzer collects.
func VerifLCOMClasses(ast *parser.Node) []*parser.Node {
	return NewLCOMAnalyzer(nil).collectClasses(ast)
}

// ---- clone detection (C08/C09) ---------------------------------------------------------------------

// VerifCloneRaw is what compareFragments measures for a pair before the similarity bands are applied.
type VerifCloneRaw struct {
	OK        bool
	Sim, Dist float64
}

// VerifPrepare installs the fragments and runs the real prepareFragments.
func (cd *CloneDetector) VerifPrepare(frags []*CodeFragment) {
	cd.fragments = frags
	cd.clonePairs = []*ClonePair{}
	cd.cloneGroups = []*CloneGroup{}
	cd.prepareFragments()
}

// VerifRaw runs the real compareFragments with the band thresholds opened (every similarity gets a type),
// so that the result is the measurement itself: nil = rejected by a pre-filter / the classifier gate.
// The classifier keeps the thresholds it was built with.
func (cd *CloneDetector) VerifRaw(f1, f2 *CodeFragment) VerifCloneRaw {
	if f1.TreeNode == nil || f2.TreeNode == nil {
		return VerifCloneRaw{}
	}
	c := *cd
	c.cloneDetectorConfig.Type1Threshold = 2
	c.cloneDetectorConfig.Type2Threshold = 2
	c.cloneDetectorConfig.Type3Threshold = 2
	c.cloneDetectorConfig.Type4Threshold = -1
	p := c.compareFragments(f1, f2)
	if p == nil {
		return VerifCloneRaw{}
	}
	return VerifCloneRaw{OK: true, Sim: p.Similarity, Dist: p.Distance}
}

func (cd *CloneDetector) VerifStandard() []*ClonePair {
	cd.clonePairs = []*ClonePair{}
	cd.detectClonePairsStandardWithContext(context.Background())
	return append([]*ClonePair{}, cd.clonePairs...)
}

func (cd *CloneDetector) VerifBatched(maxPairs, batchSize int) []*ClonePair {
	cd.clonePairs = []*ClonePair{}
	cd.detectClonePairsWithBatchingContext(context.Background(), maxPairs, batchSize)
	return append([]*ClonePair{}, cd.clonePairs...)
}

// VerifAuto: the dispatcher (standard or batched by its own rule) followed by the final sort/limit.
func (cd *CloneDetector) VerifAuto() []*ClonePair {
	cd.clonePairs = []*ClonePair{}
	cd.detectClonePairsWithContext(context.Background())
	return append([]*ClonePair{}, cd.clonePairs...)
}

func (cd *CloneDetector) VerifSetMaxPairs(n int)       { cd.cloneDetectorConfig.MaxClonePairs = n }
func (cd *CloneDetector) VerifSetBatchThreshold(n int) { cd.cloneDetectorConfig.BatchSizeThreshold = n }
func (cd *CloneDetector) VerifConfig() CloneDetectorConfig { return cd.cloneDetectorConfig }
func (cd *CloneDetector) VerifFragments() []*CodeFragment  { return cd.fragments }

// VerifLSHStage: stage 1+2 of DetectClonesWithLSH with the same components and options: per fragment the
// feature list, the MinHash signature and the candidate indices the index returns.
func (cd *CloneDetector) VerifLSHStage() (feats [][]string, sigs [][]uint64, cands [][]int) {
	extractor := NewASTFeatureExtractor().WithOptions(max(1, cd.cloneDetectorConfig.LSHRows), max(2, 4), true, false)
	hasher := NewMinHasher(cd.cloneDetectorConfig.LSHMinHashCount)
	lsh := NewLSHIndex(cd.cloneDetectorConfig.LSHBands, cd.cloneDetectorConfig.LSHRows)
	ids := map[string]int{}
	sg := make([]*MinHashSignature, len(cd.fragments))
	for i, f := range cd.fragments {
		fs, _ := extractor.ExtractFeatures(f.TreeNode)
		feats = append(feats, fs)
		s := hasher.ComputeSignature(fs)
		sg[i] = s
		sigs = append(sigs, append([]uint64{}, s.signatures...))
		id := fmt.Sprintf("%s:%d-%d", f.Location.FilePath, f.Location.StartLine, f.Location.EndLine)
		ids[id] = i
		_ = lsh.AddFragment(id, s)
	}
	for i := range cd.fragments {
		c := []int{}
		for _, id := range lsh.FindCandidates(sg[i]) {
			c = append(c, ids[id])
		}
		sort.Ints(c)
		cands = append(cands, c)
	}
	return
}

// VerifHashFamily: the (a_i, b_i) of the MinHash family, re-derived with the generator's recipe and CHECKED against the
// real closures on probe values; ok=false means the recipe no longer describes the code.
func VerifHashFamily(n int) (a, b []uint64, ok bool) {
	m := NewMinHasher(n)
	rng := rand.New(rand.NewSource(0x5eed_1234_cafe_babe))
	ok = true
	for i := 0; i < m.numHashes; i++ {
		ai := rng.Uint64() | 1
		bi := rng.Uint64()
		a, b = append(a, ai), append(b, bi)
		for _, x := range []uint64{0, 1, 2, 0xdeadbeefcafef00d, ^uint64(0), 1 << 63, 12345678901234567} {
			if m.hashFunctions[i](x) != (ai*x)^bi+ai+bi {
				ok = false
			}
		}
	}
	return
}

func VerifHash64(s string) uint64 { return hash64(s) }

// VerifTreeKey: canonical text of a prepared tree (labels + shape), to recognise structurally identical fragments.
func VerifTreeKey(t *TreeNode) string {
	if t == nil {
		return "nil"
	}
	var b strings.Builder
	var rec func(n *TreeNode)
	rec = func(n *TreeNode) {
		b.WriteString(n.Label)
		b.WriteByte('(')
		for _, c := range n.Children {
			rec(c)
		}
		b.WriteByte(')')
	}
	rec(t)
	return b.String()
}

// VerifTarjanTrace runs the detector's Tarjan pass alone and returns its internal state: the components in EMISSION order
// (before any later sorting/ranking), and the index and low-link it assigned to every module.
func VerifTarjanTrace(g *DependencyGraph) (components [][]string, indices map[string]int, lowLinks map[string]int) {
	cdd := NewCircularDependencyDetector(g)
	cdd.resetState()
	cdd.findStronglyConnectedComponents()
	return cdd.components, cdd.indices, cdd.lowLinks
}
