//go:build verif

package main

import (
	"context"
	"fmt"
	"os"
	"path/filepath"
	"time"

	"github.com/ludo-technologies/pyscn/domain"
	"github.com/ludo-technologies/pyscn/internal/version"
	"github.com/ludo-technologies/pyscn/service"
	"github.com/spf13/cobra"
)

// verif-formats: ONE analysis (the same code path as `analyze`: same flags, same use case), whose single response is then
// written in all five formats with the real formatter, into the directory given by --verif-out.  Only in binaries built
// with `-tags verif` and the overlay of /verif/harness; nothing in /repo is edited.

func init() {
	c := NewAnalyzeCommand()
	cmd := c.CreateCobraCommand()
	cmd.Use = "verif-formats [files...]"
	cmd.Hidden = true
	var outDir string
	cmd.Flags().StringVar(&outDir, "verif-out", "", "directory for the five reports")
	cmd.RunE = func(cmd *cobra.Command, args []string) error {
		config := c.createUseCaseConfig()
		useCase, err := c.buildAnalyzeUseCase(cmd)
		if err != nil {
			return err
		}
		ctx, cancel := context.WithTimeout(context.Background(), 10*time.Minute)
		defer cancel()
		response, analysisErr := useCase.Execute(ctx, config, args)
		if response == nil {
			return analysisErr
		}
		response.Version = version.Version
		formatter := service.NewAnalyzeFormatter()
		for _, f := range []struct{ ext, format string }{{"json", "json"}, {"yaml", "yaml"}, {"csv", "csv"}, {"html", "html"}, {"txt", "text"}} {
			file, err := os.Create(filepath.Join(outDir, "report."+f.ext))
			if err != nil {
				return err
			}
			werr := formatter.Write(response, domain.OutputFormat(f.format), file)
			file.Close()
			if werr != nil {
				fmt.Fprintf(cmd.ErrOrStderr(), "VERIF-FORMAT-ERROR %s: %v\n", f.format, werr)
			}
		}
		return analysisErr
	}
	rootCmd.AddCommand(cmd)
}
