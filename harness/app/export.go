//go:build verif

package app

import "github.com/ludo-technologies/pyscn/domain"

// VerifCalculateSummary exposes the unexported summary/score assembly of the analyze use case.
func VerifCalculateSummary(resp *domain.AnalyzeResponse) {
	uc := &AnalyzeUseCase{}
	uc.calculateSummary(&resp.Summary, resp)
}
