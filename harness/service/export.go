//go:build verif

package service

import (
	"github.com/ludo-technologies/pyscn/domain"
	"github.com/ludo-technologies/pyscn/internal/analyzer"
)

// Thin exported wrappers around unexported service functions, for the verification harness only.

func VerifCloneDetectorConfig(req *domain.CloneRequest) *analyzer.CloneDetectorConfig {
	return NewCloneService().createDetectorConfig(req)
}

func VerifConvertAndFilterPairs(pairs []*analyzer.ClonePair, req *domain.CloneRequest) []*domain.ClonePair {
	s := NewCloneService()
	return s.filterClonePairs(s.convertClonePairsToDomain(pairs), req)
}
